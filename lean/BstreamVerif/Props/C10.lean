import BstreamVerif.Model.FileSourceSeq
import BstreamVerif.Conc.Pipeline
import BstreamVerif.Facts
/-!
# C10 — file source delivery is ordered, contiguous, complete

`FileSourceSeq.run` is the sequential meaning of `FileSource.run`: the correspondence check (suite `filesrc`, with
random preprocess delays, several preprocessor threads and file readers) shows the real pipeline delivers exactly
this sequence for every timing it samples; the theorems below say what that sequence is, for every store, start
block, stop block and bundle size.
-/
namespace BstreamVerif.Props.C10
open BstreamVerif BstreamVerif.FileSourceSeq

/-- the stored blocks of one file that a source started at `cfg.start` is to deliver, in stored order -/
def eligible (cfg : Cfg) (base : Nat) (blocks : List Blk) : List Blk :=
  blocks.filter (fun b => decide (cfg.start ≤ b.num) && decide (base ≤ b.num))

/-- every block names the previous delivered block as its parent (`last = ""`: nothing delivered yet) -/
def linkedFrom (last : Id) : List Blk → Prop
  | [] => True
  | b :: r => (last = "" ∨ b.parent = last) ∧ linkedFrom b.id r

def lastId (last : Id) (d : List Blk) : Id := (d.getLast?.map (·.id)).getD last

theorem lastId_nil (l : Id) : lastId l [] = l := rfl
theorem lastId_cons (l : Id) (b : Blk) (r : List Blk) : lastId l (b :: r) = lastId b.id r := by
  cases r with
  | nil => rfl
  | cons c r =>
    have h : (c :: r).getLast? = some ((c :: r).getLast (by simp)) := List.getLast?_eq_some_getLast _
    simp [lastId, List.getLast?_cons_cons, h]

/-- what one file contributes, for any handler budget (no index filtering) -/
theorem streamFile_spec (cfg : Cfg) (base : Nat) (blocks : List Blk) (last : Id) (budget : Option Nat) (acc : List Blk) :
    ∃ d, (streamFile cfg true base none blocks last budget acc).1 = acc ++ d ∧
      d <+: eligible cfg base blocks ∧ linkedFrom last d ∧
      (streamFile cfg true base none blocks last budget acc).2.1 = lastId last d ∧
      ((streamFile cfg true base none blocks last budget acc).2.2.2 = none → d = eligible cfg base blocks) ∧
      (∀ id, (streamFile cfg true base none blocks last budget acc).2.2.2 = some (.nonSequential id) →
        ∃ b rest, eligible cfg base blocks = d ++ b :: rest ∧ b.id = id ∧ lastId last d ≠ "" ∧ b.parent ≠ lastId last d) ∧
      ((streamFile cfg true base none blocks last budget acc).2.2.2 = some .handlerErr →
        ∃ k, budget = some k ∧ d.length = k + 1) ∧
      (streamFile cfg true base none blocks last budget acc).2.2.2 ≠ some .stopReached ∧
      (∀ n, (streamFile cfg true base none blocks last budget acc).2.2.2 ≠ some (.waiting n)) := by
  induction blocks generalizing last budget acc with
  | nil =>
    refine ⟨[], ?_⟩
    simp [streamFile, eligible, linkedFrom, lastId]
  | cons b rest ih =>
    unfold streamFile
    by_cases h1 : b.num < cfg.start
    · simp only [h1, if_true]
      have hel : eligible cfg base (b :: rest) = eligible cfg base rest := by
        unfold eligible; rw [List.filter_cons_of_neg]; simp; omega
      rw [hel]; exact ih last budget acc
    · simp only [h1, if_false]
      by_cases h2 : b.num < base
      · simp only [h2, if_true]
        have hel : eligible cfg base (b :: rest) = eligible cfg base rest := by
          unfold eligible; rw [List.filter_cons_of_neg]; simp; omega
        rw [hel]; exact ih last budget acc
      · simp only [h2, if_false]
        have hel : eligible cfg base (b :: rest) = b :: eligible cfg base rest := by
          unfold eligible; rw [List.filter_cons_of_pos]; simp; omega
        rw [hel]
        simp only [passesFilter, Bool.not_true, Bool.false_eq_true, if_false, Bool.true_and]
        by_cases h3 : (last != "" && b.parent != last) = true
        · simp only [h3, if_true]
          refine ⟨[], by simp, List.nil_prefix, trivial, rfl, by simp, ?_, by simp, by simp, by simp⟩
          intro id hid
          simp only [Option.some.injEq, FSEnd.nonSequential.injEq] at hid
          simp only [Bool.and_eq_true, bne_iff_ne, ne_eq] at h3
          exact ⟨b, eligible cfg base rest, rfl, hid, by simpa [lastId] using h3.1, by simpa [lastId] using h3.2⟩
        · simp only [h3, if_false]
          have hlink : last = "" ∨ b.parent = last := by
            simp only [Bool.and_eq_true, bne_iff_ne, ne_eq, not_and, Decidable.not_not] at h3
            by_cases hl : last = ""
            · exact Or.inl hl
            · exact Or.inr (h3 hl)
          cases budget with
          | none =>
            simp only [Bool.false_eq_true, if_false]
            obtain ⟨d, hd1, hd2, hd3, hd4, hd5, hd6, hd7, hd8, hd9⟩ := ih b.id none (acc ++ [b])
            refine ⟨b :: d, by rw [hd1]; simp, ?_, ⟨hlink, hd3⟩, by rw [hd4, lastId_cons], ?_, ?_, ?_, hd8, hd9⟩
            · exact List.prefix_cons_inj b |>.mpr hd2
            · intro he; rw [hd5 he]
            · intro id hid
              obtain ⟨x, r, hx1, hx2, hx3, hx4⟩ := hd6 id hid
              exact ⟨x, r, by rw [hx1]; simp, hx2, by rw [lastId_cons]; exact hx3, by rw [lastId_cons]; exact hx4⟩
            · intro he; obtain ⟨k, hk, _⟩ := hd7 he; cases hk
          | some k =>
            cases k with
            | zero =>
              simp only [Bool.false_eq_true, if_false]
              refine ⟨[b], rfl, ?_, ⟨hlink, trivial⟩, rfl, by simp, by simp, ?_, by simp, by simp⟩
              · exact List.prefix_cons_inj b |>.mpr List.nil_prefix
              · intro _; exact ⟨0, rfl, rfl⟩
            | succ k =>
              simp only [Bool.false_eq_true, if_false]
              obtain ⟨d, hd1, hd2, hd3, hd4, hd5, hd6, hd7, hd8, hd9⟩ := ih b.id (some k) (acc ++ [b])
              refine ⟨b :: d, by rw [hd1]; simp, ?_, ⟨hlink, hd3⟩, by rw [hd4, lastId_cons], ?_, ?_, ?_, hd8, hd9⟩
              · exact List.prefix_cons_inj b |>.mpr hd2
              · intro he; rw [hd5 he]
              · intro id hid
                obtain ⟨x, r, hx1, hx2, hx3, hx4⟩ := hd6 id hid
                exact ⟨x, r, by rw [hx1]; simp, hx2, by rw [lastId_cons]; exact hx3, by rw [lastId_cons]; exact hx4⟩
              · intro he
                obtain ⟨k', hk, hl⟩ := hd7 he
                simp only [Option.some.injEq] at hk
                exact ⟨k + 1, rfl, by simp [hl, hk]⟩


theorem linkedFrom_append (l : Id) (d1 d2 : List Blk) :
    linkedFrom l (d1 ++ d2) ↔ linkedFrom l d1 ∧ linkedFrom (lastId l d1) d2 := by
  induction d1 generalizing l with
  | nil => simp [linkedFrom, lastId]
  | cons b r ih => simp only [List.cons_append, linkedFrom, lastId_cons, ih, and_assoc]

theorem lastId_append (l : Id) (d1 d2 : List Blk) : lastId l (d1 ++ d2) = lastId (lastId l d1) d2 := by
  induction d1 generalizing l with
  | nil => rfl
  | cons b r ih => simp only [List.cons_append, lastId_cons, ih]

/-- everything the store holds for a source started at `cfg.start`: the eligible blocks of the consecutive
    bundles from `base` until a bundle is missing or the bundle holding the stop block was read -/
def storedFrom (cfg : Cfg) (bundles : List Bundle) : Nat → Nat → List Blk
  | 0, _ => []
  | fuel + 1, base =>
    match findBundle bundles base with
    | none => []
    | some bu =>
      eligible cfg base bu.blocks ++
        (if cfg.stop != 0 && base + cfg.bundleSize > cfg.stop then [] else storedFrom cfg bundles fuel (base + cfg.bundleSize))

/-- **C10 (sequential content)**: the source delivers a prefix of the stored eligible blocks in stored order, each
    once, parent-linked; the whole of it when it ends with stop-block-reached (or waits for a missing file); and on
    a non-sequential error it stopped exactly before the offending block. -/
theorem runPlain_spec (cfg : Cfg) (bundles : List Bundle) (failAt : Option Nat) (fuel base : Nat) (last : Id)
    (budget : Option Nat) (acc : List Blk) :
    ∃ d, (runPlain cfg bundles failAt fuel base last budget acc).1 = acc ++ d ∧
      d <+: storedFrom cfg bundles fuel base ∧ linkedFrom last d ∧
      ((runPlain cfg bundles failAt fuel base last budget acc).2 = .stopReached → d = storedFrom cfg bundles fuel base) ∧
      (∀ n, (runPlain cfg bundles failAt fuel base last budget acc).2 = .waiting n → d = storedFrom cfg bundles fuel base) ∧
      (∀ id, (runPlain cfg bundles failAt fuel base last budget acc).2 = .nonSequential id →
        ∃ b rest, storedFrom cfg bundles fuel base = d ++ b :: rest ∧ b.id = id ∧ lastId last d ≠ "" ∧
          b.parent ≠ lastId last d) := by
  induction fuel generalizing base last budget acc with
  | zero =>
    refine ⟨[], by simp [runPlain], by simp [storedFrom], trivial, ?_, ?_, ?_⟩
    · intro _; rfl
    · intro _ _; rfl
    · intro id h; simp [runPlain] at h
  | succ fuel ih =>
    unfold runPlain storedFrom
    cases hb : findBundle bundles base with
    | none => exact ⟨[], by simp, by simp, trivial, by simp, by simp, by simp⟩
    | some bu =>
      simp only
      obtain ⟨d, hd1, hd2, hd3, hd4, hd5, hd6, hd7, hd8, hd9⟩ := streamFile_spec cfg base bu.blocks last budget acc
      rcases hsf : streamFile cfg true base none bu.blocks last budget acc with ⟨acc', last', budget', e⟩
      rw [hsf] at hd1 hd4 hd5 hd6 hd7 hd8 hd9
      simp only at hd1 hd4 hd5 hd6 hd7 hd8 hd9
      cases e with
      | some e =>
        simp only
        refine ⟨d, hd1, ?_, hd3, ?_, ?_, ?_⟩
        · exact List.IsPrefix.trans hd2 (List.prefix_append _ _)
        · intro he; subst he; exact absurd rfl hd8
        · intro n he; subst he; exact absurd rfl (hd9 n)
        · intro id he; subst he
          obtain ⟨b, rest, h1, h2, h3, h4⟩ := hd6 id rfl
          exact ⟨b, _, by rw [h1, List.append_assoc, List.cons_append], h2, h3, h4⟩
      | none =>
        simp only
        have hde := hd5 rfl
        by_cases hs : (cfg.stop != 0 && decide (base + cfg.bundleSize > cfg.stop)) = true
        · simp only [hs, if_true]
          exact ⟨d, hd1, by rw [hde]; simp, hd3, by intro _; rw [hde]; simp, by simp, by simp⟩
        · simp only [hs, Bool.false_eq_true, if_false]
          obtain ⟨d2, h1, h2, h3, h4, h5, h6⟩ := ih (base + cfg.bundleSize) last' budget' acc'
          subst hd4
          refine ⟨d ++ d2, by rw [h1, hd1]; simp, ?_, (linkedFrom_append _ _ _).mpr ⟨hd3, h3⟩, ?_, ?_, ?_⟩
          · rw [hde]; exact (List.prefix_append_right_inj _).mpr h2
          · intro he; rw [h4 he, hde]
          · intro n he; rw [h5 n he, hde]
          · intro id he
            obtain ⟨b, rest, g1, g2, g3, g4⟩ := h6 id he
            exact ⟨b, rest, by rw [g1, hde]; simp, g2, by rw [lastId_append]; exact g3, by rw [lastId_append]; exact g4⟩


/-- nothing below the start block is part of what the source is to deliver -/
theorem storedFrom_ge_start (cfg : Cfg) (bundles : List Bundle) (fuel base : Nat) :
    ∀ b ∈ storedFrom cfg bundles fuel base, cfg.start ≤ b.num := by
  induction fuel generalizing base with
  | zero => simp [storedFrom]
  | succ n ih =>
    unfold storedFrom
    split
    · simp
    · intro b hb
      simp only [List.mem_append] at hb
      rcases hb with hb | hb
      · simp only [eligible, List.mem_filter, Bool.and_eq_true, decide_eq_true_eq] at hb
        exact hb.2.1
      · split at hb
        · simp at hb
        · exact ih _ b hb

/-- **C10 for a whole run** (any store, start, stop, bundle size ≠ 0, handler budget) -/
theorem run_spec (cfg : Cfg) (bundles : List Bundle) (failAt : Option Nat) (hsz : cfg.bundleSize ≠ 0) :
    let stored := storedFrom cfg bundles (bundles.length + 2) (lowBoundary cfg.start cfg.bundleSize)
    (run cfg bundles failAt).1 <+: stored ∧ linkedFrom "" (run cfg bundles failAt).1 ∧
    (∀ b ∈ (run cfg bundles failAt).1, cfg.start ≤ b.num) ∧
    ((run cfg bundles failAt).2 = .stopReached → (run cfg bundles failAt).1 = stored) ∧
    (∀ id, (run cfg bundles failAt).2 = .nonSequential id →
      ∃ b rest, stored = (run cfg bundles failAt).1 ++ b :: rest ∧ b.id = id ∧
        b.parent ≠ lastId "" (run cfg bundles failAt).1) := by
  intro stored
  have hb : (cfg.bundleSize == 0) = false := by simp [hsz]
  obtain ⟨d, h1, h2, h3, h4, _, h6⟩ :=
    runPlain_spec cfg bundles failAt (bundles.length + 2) (lowBoundary cfg.start cfg.bundleSize) "" failAt []
  have hr : run cfg bundles failAt =
      runPlain cfg bundles failAt (bundles.length + 2) (lowBoundary cfg.start cfg.bundleSize) "" failAt [] := by
    unfold run; simp [hb]
  rw [hr]
  simp only [List.nil_append] at h1
  rw [h1]
  refine ⟨h2, h3, ?_, h4, ?_⟩
  · intro b hb
    exact storedFrom_ge_start cfg bundles _ _ b (h2.subset hb)
  · intro id he
    obtain ⟨b, rest, g1, g2, _, g4⟩ := h6 id he
    exact ⟨b, rest, g1, g2, g4⟩

/-- a handler error is returned for the block the handler was given: that block is the last one delivered -/
theorem handler_error_stops_file (cfg : Cfg) (base : Nat) (blocks : List Blk) (last : Id) (budget : Option Nat)
    (acc : List Blk) (h : (streamFile cfg true base none blocks last budget acc).2.2.2 = some .handlerErr) :
    ∃ k d, budget = some k ∧ (streamFile cfg true base none blocks last budget acc).1 = acc ++ d ∧ d.length = k + 1 := by
  obtain ⟨d, h1, _, _, _, _, _, h7, _, _⟩ := streamFile_spec cfg base blocks last budget acc
  obtain ⟨k, hk, hl⟩ := h7 h
  exact ⟨k, d, hk, h1, hl⟩

/-! Non-vacuity: a two-bundle store with a break, a start inside the first bundle and a stop block -/
private def bA : Blk := { id := "a", num := 1, parent := "z", lib := 0 }
private def bB : Blk := { id := "b", num := 2, parent := "a", lib := 0 }
private def bC : Blk := { id := "c", num := 3, parent := "b", lib := 0 }
private def bX : Blk := { id := "x", num := 4, parent := "q", lib := 0 }
example : run ⟨2, 3, 2, []⟩ [⟨0, [bA]⟩, ⟨2, [bB, bC]⟩] none = ([bB, bC], .stopReached) := by decide
example : run ⟨2, 0, 2, []⟩ [⟨0, [bA]⟩, ⟨2, [bB, bC]⟩, ⟨4, [bX]⟩] none = ([bB, bC], .nonSequential "x") := by decide

/-! ## "for every relative timing of the parallel preprocessors": the ordered-pipeline skeleton

`Conc/Pipeline.lean` models the synchronisation skeleton of `FileSource.streamReader`: one result channel per block,
queued in read order on a bounded channel, workers finishing in any order, a forwarder that waits for the oldest queued
result. For **every schedule** the consumer receives the blocks in exactly the order they were read, each paired with
the preprocess result computed for that same block. That the code has this skeleton is a fact regenerated from
/repo by the go/ast extractor on every run (`pipeline_skeleton_in_source`). -/
section Pipeline
open BstreamVerif.Conc.Pipeline

variable {α β : Type}

/-- invariant of the pipeline: delivered ++ queued ++ not-yet-read is the input, every result is the block's own -/
structure PInv (f : α → β) (input : List α) (s : St α β) : Prop where
  order : s.delivered.map (·.1) ++ s.q.map (·.1) ++ s.todo = input
  deliveredOwn : ∀ p ∈ s.delivered, p.2 = f p.1
  queuedOwn : ∀ p ∈ s.q, ∀ r, p.2 = some r → r = f p.1

theorem setDone_spec (f : α → β) (i : Nat) (q q' : List (α × Option β)) (h : setDone f i q = some q') :
    q'.map (·.1) = q.map (·.1) ∧
    ((∀ p ∈ q, ∀ r, p.2 = some r → r = f p.1) → ∀ p ∈ q', ∀ r, p.2 = some r → r = f p.1) := by
  induction q generalizing i q' with
  | nil => simp [setDone] at h
  | cons x t ih =>
    cases i with
    | zero =>
      obtain ⟨b, o⟩ := x
      cases o with
      | none =>
        simp only [setDone, Option.some.injEq] at h
        subst h
        refine ⟨rfl, ?_⟩
        intro hq p hp r hr
        simp only [List.mem_cons] at hp
        rcases hp with rfl | hp
        · simp only [Option.some.injEq] at hr; exact hr.symm
        · exact hq p (by simp [hp]) r hr
      | some r => simp [setDone] at h
    | succ j =>
      simp only [setDone, Option.map_eq_some_iff] at h
      obtain ⟨t', ht', rfl⟩ := h
      obtain ⟨h1, h2⟩ := ih j t' ht'
      refine ⟨by simp [h1], ?_⟩
      intro hq p hp r hr
      simp only [List.mem_cons] at hp
      rcases hp with rfl | hp
      · exact hq _ (by simp) r hr
      · exact h2 (fun p' hp' => hq p' (by simp [hp'])) p hp r hr

theorem step_pinv (f : α → β) (cap : Nat) (input : List α) (s s' : St α β) (a : Act) (h : PInv f input s)
    (hs : step f cap s a = some s') : PInv f input s' := by
  cases a with
  | read =>
    unfold step at hs
    cases htd : s.todo with
    | nil => rw [htd] at hs; cases hs
    | cons b rest =>
      rw [htd] at hs
      simp only at hs
      split at hs
      · injection hs with hs
        subst hs
        refine ⟨?_, h.deliveredOwn, ?_⟩
        · have := h.order; rw [htd] at this
          simpa [List.append_assoc] using this
        · intro p hp r hr
          simp only [List.mem_append, List.mem_singleton] at hp
          rcases hp with hp | rfl
          · exact h.queuedOwn p hp r hr
          · cases hr
      · cases hs
  | finish i =>
    unfold step at hs
    simp only [Option.map_eq_some_iff] at hs
    obtain ⟨q', hq', rfl⟩ := hs
    obtain ⟨h1, h2⟩ := setDone_spec f i s.q q' hq'
    exact ⟨by simp only; rw [h1]; exact h.order, h.deliveredOwn, h2 h.queuedOwn⟩
  | forward =>
    unfold step at hs
    cases hq : s.q with
    | nil => rw [hq] at hs; cases hs
    | cons x rest =>
      obtain ⟨b, o⟩ := x
      cases o with
      | none => rw [hq] at hs; cases hs
      | some r =>
        rw [hq] at hs
        simp only [Option.some.injEq] at hs
        subst hs
        refine ⟨?_, ?_, ?_⟩
        · have := h.order; rw [hq] at this
          simpa [List.append_assoc] using this
        · intro p hp
          simp only [List.mem_append, List.mem_singleton] at hp
          rcases hp with hp | rfl
          · exact h.deliveredOwn p hp
          · exact h.queuedOwn (b, some r) (by rw [hq]; simp) r rfl
        · intro p hp r' hr'
          exact h.queuedOwn p (by rw [hq]; simp [hp]) r' hr'

theorem run_pinv (f : α → β) (cap : Nat) (input : List α) (sched : List Act) (s : St α β) (h : PInv f input s) :
    PInv f input (Conc.Pipeline.run f cap s sched) := by
  induction sched generalizing s with
  | nil => exact h
  | cons a as ih =>
    unfold Conc.Pipeline.run
    cases hs : step f cap s a with
    | none => exact ih s h
    | some s' => exact ih s' (step_pinv f cap input s s' a h hs)

/-- **order and pairing for every schedule**: whatever the relative timing of reader, workers and forwarder, the
    consumer has received a prefix of the blocks in read order, each with the preprocess result of that same block;
    and when nothing is left to read or queued it has received all of them -/
theorem pipeline_order_any_schedule (f : α → β) (cap : Nat) (input : List α) (sched : List Act) :
    (Conc.Pipeline.run f cap (init input) sched).delivered <+: input.map (fun b => (b, f b)) ∧
    ((Conc.Pipeline.run f cap (init input) sched).todo = [] → (Conc.Pipeline.run f cap (init input) sched).q = [] →
      (Conc.Pipeline.run f cap (init input) sched).delivered = input.map (fun b => (b, f b))) := by
  have h0 : PInv f input (init input : St α β) := ⟨by simp [init], by simp [init], by simp [init]⟩
  have h := run_pinv f cap input sched _ h0
  generalize Conc.Pipeline.run f cap (init input) sched = s at h
  have hd : s.delivered = (s.delivered.map (·.1)).map (fun b => (b, f b)) := by
    rw [List.map_map]
    conv => lhs; rw [← List.map_id s.delivered]
    apply List.map_congr_left
    intro p hp
    simp only [id, Function.comp]
    rw [← h.deliveredOwn p hp]
  refine ⟨?_, ?_⟩
  · rw [hd, ← h.order, List.map_append, List.map_append, List.append_assoc]
    exact List.prefix_append _ _
  · intro ht hq
    have := h.order
    rw [ht, hq] at this
    simp only [List.map_nil, List.append_nil] at this
    rw [hd, this]

/-- no deadlock: as long as something is left to read or queued, some thread can move (capacity ≥ 1) -/
theorem pipeline_no_deadlock (f : α → β) (cap : Nat) (hc : 0 < cap) (s : St α β) (h : ¬ (s.todo = [] ∧ s.q = [])) :
    ∃ a, (step f cap s a).isSome = true := by
  cases hq : s.q with
  | cons x rest =>
    obtain ⟨b, o⟩ := x
    cases o with
    | some r => exact ⟨.forward, by simp [step, hq]⟩
    | none => exact ⟨.finish 0, by simp [step, hq, setDone]⟩
  | nil =>
    cases ht : s.todo with
    | nil => exact absurd ⟨ht, hq⟩ h
    | cons b rest => exact ⟨.read, by simp [step, ht, hq, hc]⟩

/-- the skeleton found in the current source (regenerated fact) -/
theorem pipeline_skeleton_in_source : BstreamVerif.Facts.fileSrc.orderedPipeline = true := by decide

end Pipeline

/-- **tie by translation**: `lowBoundary` of util.go, translated from the source on every run (`Facts.Gen`), is the
    model's `lowBoundary` -/
theorem lowBoundary_translated (i m : Nat) :
    BstreamVerif.Facts.Gen.lowBoundary i m = BstreamVerif.FileSourceSeq.lowBoundary i m := rfl

end BstreamVerif.Props.C10
