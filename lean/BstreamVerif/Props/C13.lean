import BstreamVerif.Model.Joining
import BstreamVerif.Facts
/-!
# C13 — Stream bounds and filters: stop block inclusive and final, filters only remove

The stream wraps the user handler as  step filter → stop-block handler → user handler  (`Sim.deliver`), resolves
a negative start against the hub head (`resolveStart`) and rejects inconsistent options before any source is
created (`runStream`). The theorems are about these functions for all inputs; how the raw event sequence arises
(files, join, live) is the subject of C07.
-/
namespace BstreamVerif.Props.C13
open BstreamVerif BstreamVerif.Joining BstreamVerif.HubBurst

/-- the handler chain as a list transformer: what reaches the user handler from a raw event sequence,
    and whether the stop block was reached -/
def chain (cfg : SCfg) : List Event → List Event × Bool
  | [] => ([], false)
  | e :: es =>
    if !passesFilter cfg e.step then chain cfg es
    else if cfg.stop != 0 && e.blk.num > cfg.stop then ([], true)
    else if cfg.stop != 0 && e.blk.num == cfg.stop then ([e], true)
    else let r := chain cfg es; (e :: r.1, r.2)

/-- nothing above the stop block is ever delivered -/
theorem nothing_above_stop (cfg : SCfg) (hs : cfg.stop ≠ 0) (evs : List Event) :
    ∀ e ∈ (chain cfg evs).1, e.blk.num ≤ cfg.stop := by
  induction evs with
  | nil => simp [chain]
  | cons x xs ih =>
    unfold chain
    have hs' : (cfg.stop != 0) = true := by simp [hs]
    split
    · exact ih
    · simp only [hs', Bool.true_and]
      split
      · simp
      · split
        · rename_i h2; intro e he; simp only [List.mem_singleton] at he; subst he
          simp only [beq_iff_eq] at h2; omega
        · rename_i h1 h2
          intro e he
          simp only [List.mem_cons] at he
          rcases he with rfl | he
          · simp only [decide_eq_true_eq] at h1; omega
          · exact ih e he

/-- the stop block itself is delivered: if the first filter-passing event at or above the stop height is for the
    stop block, it is the last delivered event and the stream ends with stop-block-reached -/
theorem stop_block_delivered (cfg : SCfg) (pre post : List Event) (e : Event)
    (hpre : ∀ x ∈ pre, passesFilter cfg x.step = false ∨ x.blk.num < cfg.stop)
    (hf : passesFilter cfg e.step = true) (he : e.blk.num = cfg.stop) (hs : cfg.stop ≠ 0) :
    (chain cfg (pre ++ e :: post)).2 = true ∧ (chain cfg (pre ++ e :: post)).1.getLast? = some e := by
  have hs' : (cfg.stop != 0) = true := by simp [hs]
  induction pre with
  | nil =>
    simp only [List.nil_append, chain, hf, Bool.not_true, Bool.false_eq_true, if_false, hs', Bool.true_and]
    have h1 : ¬ (e.blk.num > cfg.stop) := by omega
    simp [h1, he]
  | cons x xs ih =>
    have ih' := ih (fun y hy => hpre y (by simp [hy]))
    simp only [List.cons_append, chain]
    rcases hpre x (by simp) with hx | hx
    · simp only [hx, Bool.not_false, if_true]; exact ih'
    · by_cases hfx : passesFilter cfg x.step = true
      · have h1 : ¬ (x.blk.num > cfg.stop) := by omega
        have h2 : ¬ (x.blk.num = cfg.stop) := by omega
        simp only [hfx, Bool.not_true, Bool.false_eq_true, if_false, hs', Bool.true_and, decide_eq_true_eq, h1, beq_iff_eq, h2]
        refine ⟨ih'.1, ?_⟩
        obtain ⟨_, hl⟩ := ih'
        cases hc : (chain cfg (xs ++ e :: post)).1 with
        | nil => rw [hc] at hl; simp at hl
        | cons a as => rw [hc] at hl; simp [List.getLast?_cons_cons, hl]
      · simp only [Bool.not_eq_true] at hfx
        simp only [hfx, Bool.not_false, if_true]; exact ih'

/-- the step filter only removes events: what is delivered is a sublist of the raw events, in unchanged order,
    and every delivered event passes the filter -/
theorem filter_only_removes (cfg : SCfg) (evs : List Event) :
    (chain cfg evs).1.Sublist evs ∧ ∀ e ∈ (chain cfg evs).1, passesFilter cfg e.step = true := by
  induction evs with
  | nil => simp [chain]
  | cons x xs ih =>
    unfold chain
    split
    · exact ⟨List.Sublist.cons _ ih.1, ih.2⟩
    · rename_i hf
      have hf : passesFilter cfg x.step = true := by simpa using hf
      split
      · simp
      · split
        · exact ⟨List.Sublist.cons_cons _ (List.nil_sublist _), by intro e he; simp only [List.mem_singleton] at he; subst he; exact hf⟩
        · refine ⟨List.Sublist.cons_cons _ ih.1, ?_⟩
          intro e he
          simp only [List.mem_cons] at he
          rcases he with rfl | he
          · exact hf
          · exact ih.2 e he

/-- without a stop block nothing that passes the filter is lost -/
theorem no_stop_keeps_all (cfg : SCfg) (hs : cfg.stop = 0) (evs : List Event) :
    (chain cfg evs).1 = evs.filter (fun e => passesFilter cfg e.step) := by
  induction evs with
  | nil => rfl
  | cons x xs ih =>
    unfold chain
    by_cases hf : passesFilter cfg x.step = true
    · simp [hf, hs, ih]
    · simp only [Bool.not_eq_true] at hf
      simp [hf, ih]

/-- which steps each filter passes -/
theorem default_filter (cfg : SCfg) (h1 : cfg.finalOnly = false) (h2 : cfg.customFilter = none) (s : Step) :
    passesFilter cfg s = (s == .new || s == .newIrreversible || s == .undo) := by
  cases s <;> simp [passesFilter, h1, h2, Step.matchesMask, Step.code] <;> decide

theorem final_only_filter (cfg : SCfg) (h1 : cfg.finalOnly = true) (s : Step) :
    passesFilter cfg s = (s == .irreversible || s == .newIrreversible) := by
  cases s <;> simp [passesFilter, h1, Step.matchesMask, Step.code] <;> decide

theorem custom_filter (cfg : SCfg) (h1 : cfg.finalOnly = false) (m : Nat) (h2 : cfg.customFilter = some m) (s : Step) :
    passesFilter cfg s = s.matchesMask m := by
  simp [passesFilter, h1, h2]

/-- negative start: head minus the distance, saturating at 0, never below the first streamable block -/
theorem negative_start (start : Int) (hneg : start < 0) (head fsb : Nat) :
    resolveStart start head fsb = max fsb (head - start.natAbs) := by
  unfold resolveStart
  simp only [hneg, if_true]
  by_cases h : head < start.natAbs
  · simp only [h, if_true]
    have : head - start.natAbs = 0 := by omega
    rw [this]; by_cases h0 : 0 < fsb <;> simp [h0] <;> omega
  · simp only [h, if_false]
    by_cases h0 : head - start.natAbs < fsb <;> simp [h0] <;> omega

theorem nonneg_start (start : Int) (hpos : 0 ≤ start) (head fsb : Nat) :
    resolveStart start head fsb = max fsb start.toNat := by
  unfold resolveStart
  have : ¬ (start < 0) := by omega
  simp only [this, if_false]
  by_cases h0 : start.toNat < fsb <;> simp [h0] <;> omega

/-- a start after the stop block is rejected as an invalid argument, before any source is created -/
theorem start_after_stop_rejected (cfg : SCfg) (hubCfg : Forkable.Config) (bundles forks pushes)
    (h1 : cfg.stop > 0) (h2 : absStart cfg hubCfg pushes > cfg.stop) :
    runStream cfg hubCfg bundles forks pushes = ([], .invalidArg) := by
  unfold runStream startSim
  simp [h1, h2]

/-- final-blocks-only refuses a cursor that is not on a final block -/
theorem final_only_refuses_non_final_cursor (cfg : SCfg) (hubCfg : Forkable.Config) (bundles forks pushes) (c : Cur)
    (hf : cfg.finalOnly = true) (hc : cfg.cursor = some c) (hn : isOnFinalBlock c = false) :
    runStream cfg hubCfg bundles forks pushes = ([], .invalidArg) := by
  have : cursorRejected cfg = true := by simp [cursorRejected, hf, hc, hn]
  have hs : startSim cfg hubCfg bundles forks pushes = none := by
    unfold startSim; simp [this]
  unfold runStream
  rw [hs]

/-! Non-vacuity -/
example : resolveStart (-5) 20 2 = 15 ∧ resolveStart (-50) 20 2 = 2 ∧ resolveStart 1 20 2 = 2 := by decide

end BstreamVerif.Props.C13

/-! ## The same facts for whole runs of the stream model (`runStream`): an invariant of the simulation loop -/
namespace BstreamVerif.Props.C13
open BstreamVerif BstreamVerif.Joining BstreamVerif.HubBurst

/-- invariant of the simulation state: everything delivered passed the filter; with a stop block nothing is above
    it, only the last delivery can be at it, and while the stream has not ended everything is below it -/
structure Inv (cfg : SCfg) (m : Sim) : Prop where
  passes : ∀ e ∈ m.delivered, passesFilter cfg e.step = true
  le     : cfg.stop ≠ 0 → ∀ e ∈ m.delivered, e.blk.num ≤ cfg.stop
  init   : cfg.stop ≠ 0 → ∀ e ∈ m.delivered.dropLast, e.blk.num < cfg.stop
  open_  : cfg.stop ≠ 0 → m.ended = none → ∀ e ∈ m.delivered, e.blk.num < cfg.stop

theorem push_out (m : Sim) (b : Blk) : (m.push b).delivered = m.delivered ∧ (m.push b).ended = m.ended := by
  unfold Sim.push; exact ⟨rfl, rfl⟩

theorem foldl_push_out (ps : List Push) (m : Sim) :
    (ps.foldl (fun m p => m.push p.blk) m).delivered = m.delivered ∧
    (ps.foldl (fun m p => m.push p.blk) m).ended = m.ended := by
  induction ps generalizing m with
  | nil => exact ⟨rfl, rfl⟩
  | cons p ps ih =>
    simp only [List.foldl_cons]
    have h := ih (m.push p.blk)
    have h2 := push_out m p.blk
    exact ⟨h.1.trans h2.1, h.2.trans h2.2⟩

theorem applyPushes_out (m : Sim) (w : When) :
    (m.applyPushes w).delivered = m.delivered ∧ (m.applyPushes w).ended = m.ended := by
  unfold Sim.applyPushes
  exact foldl_push_out _ _

theorem inv_of_out {cfg : SCfg} {m m' : Sim} (h : Inv cfg m) (hd : m'.delivered = m.delivered)
    (he : m'.ended = m.ended ∨ m'.ended.isSome) : Inv cfg m' := by
  refine ⟨by rw [hd]; exact h.passes, by rw [hd]; exact h.le, by rw [hd]; exact h.init, ?_⟩
  intro hs hn
  rw [hd]
  rcases he with he | he
  · exact h.open_ hs (he ▸ hn)
  · rw [hn] at he; simp at he

theorem deliver_inv (cfg : SCfg) (m : Sim) (e : Event) (h : Inv cfg m) (hopen : m.ended = none) :
    Inv cfg (Sim.deliver cfg m e) := by
  unfold Sim.deliver
  split
  · exact h
  · rename_i hf
    have hf : passesFilter cfg e.step = true := by simpa using hf
    split
    · exact inv_of_out h rfl (Or.inr rfl)
    · rename_i hgt
      -- the event is appended
      have key : ∀ m' : Sim, m'.delivered = m.delivered ++ [e] →
          (m'.ended = none → cfg.stop ≠ 0 → e.blk.num < cfg.stop) → Inv cfg m' := by
        intro m' hd hlast
        refine ⟨?_, ?_, ?_, ?_⟩
        · intro x hx; rw [hd] at hx
          simp only [List.mem_append, List.mem_singleton] at hx
          rcases hx with hx | rfl
          · exact h.passes x hx
          · exact hf
        · intro hs x hx; rw [hd] at hx
          simp only [List.mem_append, List.mem_singleton] at hx
          rcases hx with hx | rfl
          · exact h.le hs x hx
          · have : (cfg.stop != 0) = true := by simp [hs]
            simp only [this, Bool.true_and, decide_eq_true_eq] at hgt; omega
        · intro hs x hx; rw [hd] at hx
          simp only [List.dropLast_concat] at hx
          exact h.open_ hs hopen x hx
        · intro hs hn x hx; rw [hd] at hx
          simp only [List.mem_append, List.mem_singleton] at hx
          rcases hx with hx | rfl
          · exact h.open_ hs hopen x hx
          · exact hlast hn hs
      split
      · -- the handler failed on this block: delivered once, the stream has ended
        apply key
        · rfl
        · intro hn; simp at hn
      split
      · apply key
        · exact (applyPushes_out _ _).1
        · intro hn; simp at hn
      · rename_i _ hne
        apply key
        · exact (applyPushes_out _ _).1
        · intro _ hs
          have : (cfg.stop != 0) = true := by simp [hs]
          simp only [this, Bool.true_and, decide_eq_true_eq, beq_iff_eq] at hgt hne
          omega

theorem step1_inv (cfg : SCfg) (m : Sim) (h : Inv cfg m) (hopen : m.ended = none) : Inv cfg (step1 cfg m) := by
  unfold step1
  split
  · split
    · exact deliver_inv cfg _ _ (inv_of_out h rfl (Or.inl rfl)) hopen
    · split
      · exact inv_of_out h (push_out _ _).1 (Or.inl (push_out _ _).2)
      · exact inv_of_out h rfl (Or.inr rfl)
  · split
    · simp only
      split
      · split
        · exact inv_of_out h rfl (Or.inl rfl)
        · exact deliver_inv cfg _ _ (inv_of_out h rfl (Or.inl rfl)) hopen
      · exact deliver_inv cfg _ _ (inv_of_out h rfl (Or.inl rfl)) hopen
    · split
      · exact inv_of_out h rfl (Or.inr rfl)
      · exact inv_of_out h rfl (Or.inr rfl)

theorem simLoop_inv (cfg : SCfg) (fuel : Nat) (m : Sim) (h : Inv cfg m) : Inv cfg (simLoop cfg fuel m) := by
  induction fuel generalizing m with
  | zero => exact h
  | succ n ih =>
    unfold simLoop
    split
    · exact h
    · rename_i hn
      have : m.ended = none := by cases hm : m.ended <;> simp_all
      exact ih _ (step1_inv cfg m h this)

theorem startBody_delivered (cfg : SCfg) (m0 : Sim) (abs : Nat) (bundles forks) :
    (startBody cfg m0 abs bundles forks).delivered = m0.delivered := by
  unfold startBody
  split
  · rfl
  · split <;> rfl

theorem startSim_delivered (cfg : SCfg) (hubCfg : Forkable.Config) (bundles forks pushes) (m : Sim)
    (h : startSim cfg hubCfg bundles forks pushes = some m) : m.delivered = [] := by
  unfold startSim at h
  split at h
  · cases h
  · split at h
    · cases h
    · injection h with h
      subst h
      rw [startBody_delivered]
      exact (applyPushes_out _ _).1

/-- **C13 for every run of the stream model**: whatever the files, the hub, the schedule of hub pushes, the cursor
    and the options, every delivered event passed the step filter; with a stop block no delivered block is above
    it and a delivery at the stop height is the last one. -/
theorem run_respects_bounds (cfg : SCfg) (hubCfg : Forkable.Config) (bundles forks pushes) :
    (∀ e ∈ (runStream cfg hubCfg bundles forks pushes).1, passesFilter cfg e.step = true) ∧
    (cfg.stop ≠ 0 → (∀ e ∈ (runStream cfg hubCfg bundles forks pushes).1, e.blk.num ≤ cfg.stop) ∧
      (∀ e ∈ (runStream cfg hubCfg bundles forks pushes).1.dropLast, e.blk.num < cfg.stop)) := by
  unfold runStream
  split
  · simp
  · rename_i m1 hm
    have hd := startSim_delivered _ _ _ _ _ _ hm
    have hI : Inv cfg m1 := ⟨by simp [hd], by simp [hd], by simp [hd], by simp [hd]⟩
    have := simLoop_inv cfg (4 * (pushes.length + (bundles.flatMap (·.blocks)).length + 10) + 50) m1 hI
    exact ⟨this.passes, fun hs => ⟨this.le hs, this.init hs⟩⟩

/-- a run that delivered a block at the stop height delivered it last, everything before it is below -/
theorem stop_block_is_last (cfg : SCfg) (hubCfg : Forkable.Config) (bundles forks pushes) (e : Event)
    (hs : cfg.stop ≠ 0) (he : e ∈ (runStream cfg hubCfg bundles forks pushes).1) (hn : e.blk.num = cfg.stop) :
    ∃ pre last, (runStream cfg hubCfg bundles forks pushes).1 = pre ++ [last] ∧ last.blk.num = cfg.stop ∧
      ∀ x ∈ pre, x.blk.num < cfg.stop := by
  have h := (run_respects_bounds cfg hubCfg bundles forks pushes).2 hs
  generalize (runStream cfg hubCfg bundles forks pushes).1 = d at *
  rcases List.eq_nil_or_concat d with hd | ⟨pre, x, hd⟩
  · subst hd; simp at he
  · rw [List.concat_eq_append] at hd
    subst hd
    have hpre : ∀ y ∈ pre, y.blk.num < cfg.stop := fun y hy => h.2 y (by simpa using hy)
    refine ⟨pre, x, rfl, ?_, hpre⟩
    simp only [List.mem_append, List.mem_singleton] at he
    rcases he with he | rfl
    · have := hpre e he; omega
    · exact hn

/-- **tie by translation**: `StepType.Matches` of steps.go and the step constants, translated from the source on every
    run, are the model's `Step.matchesMask` and `Step.code` (any common bit — not all bits of the mask) -/
theorem step_matches_translated (s : Step) (mask : Nat) :
    BstreamVerif.Facts.Gen.stepMatches s.code mask = s.matchesMask mask := by
  unfold BstreamVerif.Facts.Gen.stepMatches Step.matchesMask
  by_cases h : (s.code &&& mask) = 0 <;> simp [h]

theorem step_codes_translated :
    BstreamVerif.Facts.Gen.cStepNew = Step.new.code ∧ BstreamVerif.Facts.Gen.cStepUndo = Step.undo.code ∧
    BstreamVerif.Facts.Gen.cStepIrreversible = Step.irreversible.code ∧
    BstreamVerif.Facts.Gen.cStepStalled = Step.stalled.code ∧
    Step.newIrreversible.code = BstreamVerif.Facts.Gen.cStepNew ||| BstreamVerif.Facts.Gen.cStepIrreversible := by decide

end BstreamVerif.Props.C13
