import BstreamVerif.Model.Joining
namespace BstreamVerif.Props.C13
open BstreamVerif BstreamVerif.Joining

end BstreamVerif.Props.C13
