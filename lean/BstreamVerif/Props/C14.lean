import BstreamVerif.Lemmas.CursorLemmas
/-!
# C14 — Cursor text and opaque encodings round-trip and never crash on foreign input
-/
namespace BstreamVerif.Props.C14
open BstreamVerif.Cursor BstreamVerif.CursorLemmas

/-- what every decodable / encodable cursor satisfies: resumable step, colon-free ids, 64-bit heights -/
structure Basic (c : Cursor) : Prop where
  step : validStep c.step = true
  bid : colon ∉ c.block.id
  hid : colon ∉ c.head.id
  lid : colon ∉ c.lib.id
  bn : c.block.num < 2 ^ 64
  hn : c.head.num < 2 ^ 64
  ln : c.lib.num < 2 ^ 64

/-- "equivalent cursor": same step, same three ids, same block height -/
def Equiv (a b : Cursor) : Prop :=
  a.step = b.step ∧ a.block = b.block ∧ a.head.id = b.head.id ∧ a.lib.id = b.lib.id

/-- the decoder applied to the encoder's output, computed for every basic cursor -/
theorem decode_encode (c : Cursor) (h : Basic c) :
    fromString (Cursor.toString c) = some
      (if c.head.id = c.block.id then ⟨c.step, c.block, c.block, c.lib⟩
       else if c.block.id = c.lib.id then ⟨c.step, c.block, c.head, c.block⟩
       else c) := by
  have hcf : ∀ n, colon ∉ showNat n := showNat_colonFree
  have hsi : colon ∉ showInt c.step := by
    have := h.step
    simp only [validStep, Bool.or_eq_true, beq_iff_eq] at this
    rcases this with ((e | e) | e) | e <;> rw [e] <;> exact hcf _
  have k1 : colon ∉ c1 := by decide
  have k2 : colon ∉ c2 := by decide
  have k3 : colon ∉ c3 := by decide
  unfold fromString Cursor.toString
  split
  · rw [splitColon_join _ (by simp) (by
      intro p hp; simp only [List.mem_cons, List.not_mem_nil, or_false] at hp
      rcases hp with rfl | rfl | rfl | rfl | rfl | rfl <;> first | assumption | exact hcf _ | exact h.bid | exact h.lid)]
    simp [fromParts, step_rt _ h.step, readRef, parseUint64_showNat _ h.bn, parseUint64_showNat _ h.ln]
  · split
    · rw [splitColon_join _ (by simp) (by
        intro p hp; simp only [List.mem_cons, List.not_mem_nil, or_false] at hp
        rcases hp with rfl | rfl | rfl | rfl | rfl | rfl <;> first | assumption | exact hcf _ | exact h.bid | exact h.hid)]
      have : c2 ≠ c1 := by decide
      simp [fromParts, this, step_rt _ h.step, readRef, parseUint64_showNat _ h.bn, parseUint64_showNat _ h.hn]
    · rw [splitColon_join _ (by simp) (by
        intro p hp; simp only [List.mem_cons, List.not_mem_nil, or_false] at hp
        rcases hp with rfl | rfl | rfl | rfl | rfl | rfl | rfl | rfl <;>
          first | assumption | exact hcf _ | exact h.bid | exact h.hid | exact h.lid)]
      simp [fromParts, step_rt _ h.step, readRef, parseUint64_showNat _ h.bn, parseUint64_showNat _ h.hn,
        parseUint64_showNat _ h.ln]


/-- C14 round trip: well-formed cursor (ids free of ':', equal ids ⇒ equal heights) survives String → FromString. -/
theorem roundtrip (c : Cursor) (h : Basic c)
    (a1 : c.head.id = c.block.id → c.head.num = c.block.num)
    (a2 : c.block.id = c.lib.id → c.block.num = c.lib.num) :
    fromString (Cursor.toString c) = some c := by
  rw [decode_encode c h]
  rcases c with ⟨st, ⟨bi, bn⟩, ⟨hi, hn⟩, ⟨li, ln⟩⟩
  simp only at a1 a2 ⊢
  split
  · rename_i e; subst e; simp [a1 rfl]
  · split
    · rename_i e; subst e; simp [a2 rfl]
    · rfl

/-- The text form uses layout c1 iff head = block, else c2 iff block = LIB, else c3 … -/
theorem layout (c : Cursor) :
    (Cursor.toString c).take 2 =
      if c.head.id = c.block.id then c1 else if c.block.id = c.lib.id then c2 else c3 := by
  unfold Cursor.toString
  split
  · simp [joinColon, c1]
  · split <;> simp [joinColon, c2, c3]

/-- … and a 6-segment layout cannot express a cursor whose head and LIB both differ from its block:
    every string of at most 7 segments that decodes yields head = block or LIB = block. -/
theorem short_layout_loses (s : Bytes) (c : Cursor) (h : fromString s = some c)
    (hl : (splitColon s).length ≠ 8) : c.head = c.block ∨ c.lib = c.block := by
  unfold fromString at h
  generalize splitColon s = ps at h hl
  unfold fromParts at h
  split at h
  · split at h
    · simp only [bind, Option.bind_eq_some_iff, pure, Option.some.injEq] at h
      obtain ⟨st, h1, blk, h2, r3, h3, rfl⟩ := h
      exact Or.inl rfl
    · split at h
      · simp only [bind, Option.bind_eq_some_iff, pure, Option.some.injEq] at h
        obtain ⟨st, h1, blk, h2, r3, h3, rfl⟩ := h
        exact Or.inr rfl
      · simp at h
  · simp at hl
  · simp at h

/-- Whatever FromString accepts is a basic cursor (resumable step, colon-free ids, 64-bit heights). -/
theorem fromString_basic (s : Bytes) (c : Cursor) (h : fromString s = some c) : Basic c := by
  unfold fromString at h
  have hcf := splitColon_parts_colonFree s
  generalize splitColon s = ps at h hcf
  have rs : ∀ p st, readStep p = some st → validStep st = true := by
    intro p st hp; unfold readStep at hp
    split at hp
    · split at hp
      · simp only [Option.some.injEq] at hp; subst hp; assumption
      · simp at hp
    · simp at hp
  have rr : ∀ n i r, readRef n i = some r → r.id = i ∧ r.num < 2 ^ 64 := by
    intro n i r hr; unfold readRef parseUint64 at hr
    split at hr
    · simp at hr
    · split at hr
      · split at hr
        · simp only [Option.map_some, Option.some.injEq] at hr; subst hr; exact ⟨rfl, by assumption⟩
        · simp at hr
      · simp at hr
  unfold fromParts at h
  split at h
  · split at h
    · simp only [bind, Option.bind_eq_some_iff, pure, Option.some.injEq] at h
      obtain ⟨st, h1, blk, h2, r3, h3, rfl⟩ := h
      obtain ⟨e2, n2⟩ := rr _ _ _ h2
      obtain ⟨e3, n3⟩ := rr _ _ _ h3
      exact ⟨rs _ _ h1, by simp [e2, hcf], by simp [e2, hcf], by simp [e3, hcf], n2, n2, n3⟩
    · split at h
      · simp only [bind, Option.bind_eq_some_iff, pure, Option.some.injEq] at h
        obtain ⟨st, h1, blk, h2, r3, h3, rfl⟩ := h
        obtain ⟨e2, n2⟩ := rr _ _ _ h2
        obtain ⟨e3, n3⟩ := rr _ _ _ h3
        exact ⟨rs _ _ h1, by simp [e2, hcf], by simp [e3, hcf], by simp [e2, hcf], n2, n3, n2⟩
      · simp at h
  · split at h
    · simp only [bind, Option.bind_eq_some_iff, pure, Option.some.injEq] at h
      obtain ⟨st, h1, blk, h2, r3, h3, r4, h4, rfl⟩ := h
      obtain ⟨e2, n2⟩ := rr _ _ _ h2
      obtain ⟨e3, n3⟩ := rr _ _ _ h3
      obtain ⟨e4, n4⟩ := rr _ _ _ h4
      exact ⟨rs _ _ h1, by simp [e2, hcf], by simp [e3, hcf], by simp [e4, hcf], n2, n3, n4⟩
    · simp at h
  · simp at h

/-- Arbitrary input: the decoder yields an error or a cursor that re-encodes to an equivalent cursor. -/
theorem reencode_equiv (s : Bytes) (c : Cursor) (h : fromString s = some c) :
    ∃ c', fromString (Cursor.toString c) = some c' ∧ Equiv c c' := by
  have hb := fromString_basic s c h
  refine ⟨_, decode_encode c hb, ?_⟩
  unfold Equiv
  split
  · rename_i e; exact ⟨rfl, rfl, e, rfl⟩
  · split
    · rename_i e; exact ⟨rfl, rfl, rfl, e.symm⟩
    · exact ⟨rfl, rfl, rfl, rfl⟩

/-- Opaque form: for any codec that round-trips (secretbox/base64 of streamingfast/opaque is outside
    bstream; the hypothesis is checked on every generated string by the correspondence run). -/
theorem opaque_roundtrip {Tok : Type} (enc : Bytes → Tok) (dec : Tok → Option Bytes)
    (hcodec : ∀ s, dec (enc s) = some s) (c : Cursor) (h : Basic c)
    (a1 : c.head.id = c.block.id → c.head.num = c.block.num)
    (a2 : c.block.id = c.lib.id → c.block.num = c.lib.num) :
    (dec (enc (Cursor.toString c))).bind fromString = some c := by
  rw [hcodec]; exact roundtrip c h a1 a2

/-! Non-vacuity -/
example : Basic ⟨1, ⟨[97], 5⟩, ⟨[98], 7⟩, ⟨[99], 3⟩⟩ :=
  ⟨by decide, by decide, by decide, by decide, by decide, by decide, by decide⟩

end BstreamVerif.Props.C14
