import BstreamVerif.Model.Forkable
import BstreamVerif.Spec.Consumer
namespace BstreamVerif.Props.C02
open BstreamVerif BstreamVerif.Forkable BstreamVerif.Consumer

end BstreamVerif.Props.C02
