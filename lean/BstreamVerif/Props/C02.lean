import BstreamVerif.Lemmas.StepCheckSound
import BstreamVerif.Props.C03
/-!
# C02 — finality is sound, ordered, gap-free, never revoked; stalled blocks are dead

The consumer `CS` of C01 accepts an Irreversible event only for its oldest pending block and then rests on it:
`history_discipline` (C01) therefore already says that along every history the blocks announced irreversible are,
in order, the oldest pending blocks of the consumer's chain — a gap-free parent-linked chain extending the LIB.
Here: what acceptance means, the announced segment is a path from the old to the new LIB, its top carries the
LIB number the triggering head declares, and stalled blocks are off the segment and within its heights.
The starting-LIB-announced-first case (LIB discovery, inclusive start) is covered by the monitors only.
-/
namespace BstreamVerif.Props.C02
open BstreamVerif BstreamVerif.Forkable BstreamVerif.ForkDB

/-- an accepted Irreversible event is the oldest pending block; the consumer now rests on it -/
theorem irreversible_is_oldest_pending (c c' : CS) (blk : Blk) (h : c.apply (.irreversible, blk) = some c') :
    c.pend = blk.id :: c'.pend ∧ c'.lib = blk.id := by
  unfold CS.apply at h
  simp only at h
  cases hp : c.pend with
  | nil => rw [hp] at h; cases h
  | cons x r =>
    rw [hp] at h
    simp only at h
    split at h
    · rename_i hx
      injection h with h
      subst h
      exact ⟨by rw [hx], hx⟩
    · cases h

/-- and it leaves the pending list for good: it cannot be undone afterwards (the pending list has no duplicates) -/
theorem final_leaves_pending (s : FState) (P : List Id) (hI : Inv s P) : P.Nodup ∧ s.db.libRef.id ∉ P :=
  ⟨isPath_nodup _ _ _ hI.path hI.libNotin, hI.libNotin⟩

/-- an accepted Undo is the newest pending block: never a final one -/
theorem undo_is_newest_pending (c c' : CS) (blk : Blk) (h : c.apply (.undo, blk) = some c') :
    c.pend = c'.pend ++ [blk.id] ∧ c'.lib = c.lib := by
  unfold CS.apply at h
  simp only at h
  split at h
  · rename_i hl
    injection h with h
    subst h
    refine ⟨?_, rfl⟩
    rcases List.eq_nil_or_concat c.pend with hn | ⟨l, x, hx⟩
    · rw [hn] at hl; simp at hl
    · rw [List.concat_eq_append] at hx
      rw [hx] at hl ⊢
      simp at hl
      simp [hl]
  · cases h

/-- the announced segment is a parent-linked path of stored blocks from the old LIB (exclusive) to the new LIB -/
theorem segment_is_path (db : DB) (fsb : Nat) (newLIB : Ref) (h : (db.hasNewIrreversibleSegment fsb newLIB).1 = true)
    (hl : db.hasLIB = true) :
    IsPath db db.libRef.id ((db.hasNewIrreversibleSegment fsb newLIB).2.1.map (·.blk.id)) ∧
    topOf db.libRef.id ((db.hasNewIrreversibleSegment fsb newLIB).2.1.map (·.blk.id)) = newLIB.id ∧
    db.libRef.id ≠ newLIB.id := by
  obtain ⟨hne, seg, r, hrev, _, hseg, _⟩ := hasNew_inv db fsb newLIB h
  have hr : r = true := revSegAux_reach _ _ _ _ _ _ _ _ hl hrev
  subst hr
  obtain ⟨h1, h2, _⟩ := reversibleSegment_sound _ _ _ _ hrev
  rw [hseg]
  exact ⟨h1, h2, hne⟩

/-- its top is the ancestor of the head at the LIB number the head declares -/
theorem bounded_by_declared_lib (db : DB) (head : Blk) (h : (db.blockInChain head.ref head.lib).id ≠ "") :
    (db.blockInChain head.ref head.lib).num = head.lib := Props.C03.lib_follows_declared db head h

theorem mem_insertById (e x : Entry) (l : List Entry) : x ∈ insertById e l ↔ x = e ∨ x ∈ l := by
  induction l with
  | nil => simp [insertById]
  | cons a t ih =>
    unfold insertById
    split
    · simp
    · simp only [List.mem_cons, ih]
      constructor
      · rintro (h | h | h)
        · exact Or.inr (Or.inl h)
        · exact Or.inl h
        · exact Or.inr (Or.inr h)
      · rintro (h | h | h)
        · exact Or.inr (Or.inl h)
        · exact Or.inl h
        · exact Or.inr (Or.inr h)

theorem mem_sortById (x : Entry) (l : List Entry) : x ∈ sortById l ↔ x ∈ l := by
  induction l with
  | nil => simp [sortById]
  | cons a t ih =>
    simp only [sortById, List.foldr_cons, List.mem_cons]
    rw [mem_insertById]
    unfold sortById at ih
    rw [ih]

/-- stalled blocks are stored blocks off the announced segment whose heights lie within it: at or below the
    final height, and never one of the blocks announced final -/
theorem stalled_off_segment (db : DB) (seg : List Entry) (x : Entry) (h : x ∈ db.stalledInSegment seg) :
    x ∈ db.entries ∧ x.blk.id ∉ seg.map (·.blk.id) ∧
    ∃ f l, seg.head? = some f ∧ seg.getLast? = some l ∧ f.blk.num ≤ x.blk.num ∧ x.blk.num ≤ l.blk.num := by
  unfold DB.stalledInSegment at h
  split at h
  · simp at h
  · split at h
    · rename_i f l hf hl
      rw [mem_sortById] at h
      simp only [List.mem_filter, Bool.and_eq_true, Bool.not_eq_true', decide_eq_true_eq] at h
      refine ⟨h.1, ?_, f, l, hf, hl, h.2.1.2, h.2.2⟩
      intro hm
      obtain ⟨y, hy, hye⟩ := List.mem_map.mp hm
      have := h.2.1.1
      rw [List.any_eq_false] at this
      exact this y hy (by simp [hye])
    · simp at h

/-- **stalled blocks are never on the consumer's chain**: a block reported stalled for the segment ending at the new LIB
    lies at or below the new LIB's height, while every block the consumer still holds pending lies above it -/
theorem stalled_not_pending (db : DB) (hh : Heights db) (seg : List Entry) (x : Entry) (hx : x ∈ db.stalledInSegment seg)
    (l : Entry) (hl : seg.getLast? = some l) (Q : List Id) (hQ : IsPath db l.blk.id Q)
    (hab : ∀ e ∈ db.entries, e.blk.parent = l.blk.id → l.blk.num < e.blk.num)
    (hfx : db.find x.blk.id = some x) : x.blk.id ∉ Q := by
  obtain ⟨_, _, f, l', _, hl', _, hle⟩ := stalled_off_segment db seg x hx
  rw [hl] at hl'
  injection hl' with hl'
  subst hl'
  intro hm
  have := heights_path db hh l.blk.id l.blk.num Q hQ hab x.blk.id hm x hfx
  omega

/-- **stalled blocks lie strictly above the old LIB and at or below the new one**: the blocks reported stalled at a LIB
    move from `db.libRef` to `newLIB` have heights in (old LIB height, height of the last announced block] -/
theorem stalled_range (db : DB) (hh : Heights db) (fsb : Nat) (newLIB : Ref)
    (h : (db.hasNewIrreversibleSegment fsb newLIB).1 = true) (hl : db.hasLIB = true)
    (hfaith : ∀ e ∈ (db.hasNewIrreversibleSegment fsb newLIB).2.1, db.find e.blk.id = some e)
    (x : Entry) (hx : x ∈ (db.hasNewIrreversibleSegment fsb newLIB).2.2) :
    db.libRef.num < x.blk.num ∧
    ∃ l, (db.hasNewIrreversibleSegment fsb newLIB).2.1.getLast? = some l ∧ x.blk.num ≤ l.blk.num := by
  obtain ⟨hpath, _, _⟩ := segment_is_path db fsb newLIB h hl
  -- the stalled list is `stalledInSegment` of the announced segment
  have hst : (db.hasNewIrreversibleSegment fsb newLIB).2.2 =
      db.stalledInSegment (db.hasNewIrreversibleSegment fsb newLIB).2.1 := by
    unfold DB.hasNewIrreversibleSegment at h ⊢
    split
    · rename_i hc; simp [hc] at h
    · split
      · rename_i hc; simp_all
      · rename_i hc; simp_all
      · rfl
  rw [hst] at hx
  obtain ⟨_, _, f, l, hf, hlast, hfx, hxl⟩ := stalled_off_segment db _ x hx
  refine ⟨?_, l, hlast, hxl⟩
  -- the first announced block is a child of the old LIB (or of a block above it): its height is above the LIB's
  have hfm : f ∈ (db.hasNewIrreversibleSegment fsb newLIB).2.1 := List.mem_of_mem_head? hf
  have := heights_path db hh db.libRef.id db.libRef.num _ hpath hh.2.1 f.blk.id
    (List.mem_map.mpr ⟨f, hfm, rfl⟩) f (hfaith f hfm)
  omega

/-- **reported at most once**: the blocks reported stalled at two different LIB moves are different blocks — the first
    move ends at height `n1`, any later one starts from a LIB at least that high, and the height ranges
    (old LIB, new LIB] of the two moves do not meet -/
theorem stalled_once (db db' : DB) (hh : Heights db) (hh' : Heights db') (fsb : Nat) (R R' : Ref)
    (h : (db.hasNewIrreversibleSegment fsb R).1 = true) (hl : db.hasLIB = true)
    (hf : ∀ e ∈ (db.hasNewIrreversibleSegment fsb R).2.1, db.find e.blk.id = some e)
    (h' : (db'.hasNewIrreversibleSegment fsb R').1 = true) (hl' : db'.hasLIB = true)
    (hf' : ∀ e ∈ (db'.hasNewIrreversibleSegment fsb R').2.1, db'.find e.blk.id = some e)
    (hlater : ∀ l, (db.hasNewIrreversibleSegment fsb R).2.1.getLast? = some l → l.blk.num ≤ db'.libRef.num)
    (x y : Entry) (hx : x ∈ (db.hasNewIrreversibleSegment fsb R).2.2)
    (hy : y ∈ (db'.hasNewIrreversibleSegment fsb R').2.2) : x.blk.num < y.blk.num := by
  obtain ⟨_, l, hlast, hxl⟩ := stalled_range db hh fsb R h hl hf x hx
  obtain ⟨hyl, _⟩ := stalled_range db' hh' fsb R' h' hl' hf' y hy
  have := hlater l hlast
  omega

/-- **a block at or below the LIB height is never pending again** (any state of the invariant): the consumer's pending
    chain lies strictly above the LIB. Since the LIB height never decreases (`C04.lib_height_never_decreases`) and an
    accepted Undo is the newest *pending* block (`undo_is_newest_pending`), a block announced irreversible — it is at
    or below the LIB height from then on — is never delivered as Undo later, and never as New either
    (`C04.history_cursor_lib_not_above_block`: New events are strictly above the LIB). -/
theorem pending_above_lib (s : FState) (P : List Id) (hI : Inv s P) :
    ∀ x ∈ P, ∀ e, s.db.find x = some e → s.db.libRef.num < e.blk.num :=
  heights_path s.db hI.heights s.db.libRef.id s.db.libRef.num P hI.path hI.heights.2.1

/-- the LIB block itself, and anything stored at or below its height, is not on the pending chain -/
theorem at_or_below_lib_not_pending (s : FState) (P : List Id) (hI : Inv s P) (x : Id) (e : Entry)
    (hf : s.db.find x = some e) (hle : e.blk.num ≤ s.db.libRef.num) : x ∉ P := by
  intro hx
  have := pending_above_lib s P hI x hx e hf
  omega

end BstreamVerif.Props.C02
