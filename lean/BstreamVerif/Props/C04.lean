import BstreamVerif.Lemmas.StepCheckSound
import BstreamVerif.Lemmas.NewHeights
import BstreamVerif.Lemmas.CursorLib
import BstreamVerif.Props.C01
import BstreamVerif.Lemmas.Discovery
/-!
# C04 — every delivered event carries a cursor describing the consumer position exactly

An event of the model is (step, block, head, lib, junction): the cursor's step and block are the event's by
construction of the encoding (the correspondence check compares the implementation's cursor fields with it).
Here: the head is the incoming block, for every state, block and handler failure point; Irreversible events carry
themselves as LIB; New/Undo events carry the forkable's cursor LIB; and the junction named by the Undo events is the
common ancestor of the abandoned and the adopted branch — the block the consumer's chain rests on once the undos
are applied. LIB monotonicity along a stream and the burst/file cursors are checked by the monitors (C05/C06 suites).
-/
namespace BstreamVerif.Props.C04
open BstreamVerif BstreamVerif.Forkable BstreamVerif.ForkDB

/-- the head block of every cursor is the incoming block that caused the delivery -/
theorem head_is_incoming_block (cfg : Config) (s : FState) (b : Blk) (f : Option Nat) :
    ∀ e ∈ (processBlock cfg s b f).2.1, e.head = b.ref := processBlock_head cfg s b f

/-- an Irreversible event's cursor LIB is the block itself -/
theorem irreversible_lib_is_itself (cfg : Config) (seg : List Entry) (head : Ref) (actual : Id → Option Blk) :
    ∀ e ∈ irrEvents cfg seg head actual, e.step = .irreversible ∧ e.lib = e.blk.ref := by
  intro e he
  unfold irrEvents at he
  split at he
  · obtain ⟨i, hi, rfl⟩ := List.getElem_of_mem he
    simp
  · simp at he

/-- Undo and re-delivered New events carry the forkable's cursor LIB (last irreversible announced, or the starting LIB) -/
theorem switch_events_lib (step : Step) (es : List Entry) (head lib : Ref) (j : Option Ref) :
    ∀ e ∈ mkEvents step es head lib j, e.lib = lib ∧ e.step = step ∧ e.junction = j := by
  intro e he
  unfold mkEvents at he
  obtain ⟨i, hi, rfl⟩ := List.getElem_of_mem he
  simp

/-- **the junction is the common ancestor**: at a chain switch from the consumer's chain `P` (LIB → old head) to the
    chain `L` of the new block's parent, the undo list is the part of `P` above the junction, newest first; the redo
    list is the part of `L` above it; and the junction is the top of their common part `Pj` — what the consumer rests
    on after the undos. -/
theorem junction_is_common_ancestor (db : DB) (hwf : WfEntries db) (hh : Heights db) (hlib : db.libRef.id ≠ "")
    (P L : List Id) (hP : IsPath db db.libRef.id P) (hPn : db.libRef.id ∉ P)
    (hL : IsPath db db.libRef.id L) (hLn : db.libRef.id ∉ L) :
    ∃ undo redo j Pj, db.chainSwitchSegments (topOf db.libRef.id P) (topOf db.libRef.id L) = some (undo, redo, j) ∧
      P = Pj ++ undo.reverse ∧ L = Pj ++ redo ∧ topOf db.libRef.id Pj = j :=
  chainSwitch_shape db hwf hh hlib P L hP hPn hL hLn

/-- whatever the buffer holds, the segments are parent-linked and meet at the junction -/
theorem segments_meet_at_junction (db : DB) (oldHead newPrev : Id) (undo redo : List Id) (j : Id)
    (h : db.chainSwitchSegments oldHead newPrev = some (undo, redo, j)) :
    IsDown db (undo ++ [j]) ∧ IsPath db j redo ∧ topOf j redo = newPrev ∧ j ∉ undo ∧ (undo = [] → j = oldHead) := by
  obtain ⟨_, h2, _, h4, h5, h6, _, h8⟩ := chainSwitchSegments_sound db oldHead newPrev undo redo j h
  exact ⟨h2, h5, h6, h8, h4⟩

/-- **the cursor LIB of every event** (forkable that knows its LIB, any handler failure point): Undo and New events
    carry the buffer's LIB as it was when the block came in — the last block announced irreversible, or the starting
    LIB (`Inv.seen`) —, Irreversible events carry themselves, and nothing else is delivered but Stalled events -/
theorem cursor_lib_of_every_event (cfg : Config) (s : FState) (P : List Id) (b : Blk) (f : Option Nat) (hI : Inv s P)
    (hni : s.includeInit = false ∨ s.lastSent.isSome = true ∨ b.id ≠ s.db.libRef.id) :
    ∀ e ∈ (processBlock cfg s b f).2.1,
      ((e.step = .undo ∨ e.step = .new) ∧ e.lib = s.db.libRef) ∨ (e.step = .irreversible ∧ e.lib = e.blk.ref) ∨
      e.step = .stalled := by
  have := processBlock_cursor_lib cfg s b f hni hI.libNe
  rw [cursorLIB_of_inv s P hI] at this
  exact this

/-- **the LIB height never decreases**: one `ProcessBlock` leaves the LIB where it was or moves it to a higher block -/
theorem lib_height_never_decreases (cfg : Config) (hnew : cfg.matches .new = true) (hundo : cfg.matches .undo = true)
    (hirr : cfg.matches .irreversible = true) (s : FState) (P : List Id) (b : Blk) (hI : Inv s P)
    (hok : Props.C01.StepOK s b) :
    s.db.libRef.num ≤ (processBlock cfg s b none).1.db.libRef.num := by
  obtain ⟨_, _, _, _, _, hshape⟩ := processBlock_step cfg hnew hundo hirr s P b hI hok.1 hok.2.1 hok.2.2.1 hok.2.2.2.1 hok.2.2.2.2
  rcases hshape with ⟨h, _⟩ | ⟨_, db2, hsb, h | ⟨R, er, h, _, _, hup⟩⟩
  · rw [h]; exact Nat.le_refl _
  · rw [h, hsb.1]; exact Nat.le_refl _
  · rw [h]
    show s.db.libRef.num ≤ R.num
    have : db2.libRef = s.db.libRef := hsb.1
    rw [this] at hup; omega

/-- **which blocks are delivered as New** (forkable that knows its LIB, any handler failure point, no invariant needed):
    every New event of one `ProcessBlock` delivers a block of the redo segment or of the new longest chain computed
    for the incoming block — nothing else is ever handed over as New -/
theorem new_events_deliver_redo_or_chain_blocks (cfg : Config) (s : FState) (b : Blk) (f : Option Nat)
    (hni : s.includeInit = false ∨ s.lastSent.isSome = true ∨ b.id ≠ s.db.libRef.id) (hlib : s.db.libRef.id ≠ "") :
    ∀ e ∈ (processBlock cfg s b f).2.1, e.step = .new →
      ∃ u rd j lc, switchSegments cfg s b (triggers cfg s b) = some (u, rd, j) ∧
        computeLongestChain cfg (afterLink s b) b = some lc ∧
        ((∃ x ∈ rd, x.blk = e.blk) ∨ (∃ x ∈ lc, x.blk = e.blk)) := by
  apply processBlock_new_from cfg s b f
    (fun blk => ∃ u rd j lc, switchSegments cfg s b (triggers cfg s b) = some (u, rd, j) ∧
      computeLongestChain cfg (afterLink s b) b = some lc ∧ ((∃ x ∈ rd, x.blk = blk) ∨ (∃ x ∈ lc, x.blk = blk))) hni hlib
  intro u rd j lc hsw hc _ _
  exact ⟨fun e he => ⟨u, rd, j, lc, hsw, hc, Or.inl ⟨e, he, rfl⟩⟩, fun e he => ⟨u, rd, j, lc, hsw, hc, Or.inr ⟨e, he, rfl⟩⟩⟩

/-- **the cursor LIB never exceeds the height of a New or Irreversible event** (one incoming block, any handler failure
    point): a New event carries the LIB the forkable had when the block came in, and the delivered block is *strictly*
    above it; an Irreversible event carries itself. -/
theorem cursor_lib_not_above_block (cfg : Config) (s : FState) (P : List Id) (b : Blk) (f : Option Nat) (hI : Inv s P)
    (hni : s.includeInit = false ∨ s.lastSent.isSome = true ∨ b.id ≠ s.db.libRef.id)
    (hcl : SentClosed s.db) (hb : WFin b) (hB : HB s.db b) :
    ∀ e ∈ (processBlock cfg s b f).2.1,
      (e.step = .new → e.lib = s.db.libRef ∧ e.lib.num < e.blk.num) ∧
      (e.step = .irreversible → e.lib.num = e.blk.num) := by
  intro e he
  have hab := processBlock_new_above_lib cfg s P b f hI hni hcl hb hB e he
  rcases cursor_lib_of_every_event cfg s P b f hI hni e he with ⟨hs, hl⟩ | ⟨hs, hl⟩ | hs
  · refine ⟨fun hn => ⟨hl, (by rw [hl]; exact hab hn)⟩, fun hi => ?_⟩
    rcases hs with hs | hs <;> rw [hs] at hi <;> cases hi
  · exact ⟨fun hn => (by rw [hs] at hn; cases hn), fun _ => (by rw [hl]; rfl)⟩
  · exact ⟨fun hn => (by rw [hs] at hn; cases hn), fun hi => (by rw [hs] at hi; cases hi)⟩

/-- **along every history of blocks of one consistent block tree** (hypotheses on the input only, as in
    `C01.history_discipline_consistent`): in the whole event stream, the cursor LIB of a New event is strictly below the
    delivered block and the cursor LIB of an Irreversible event is the block itself -/
theorem history_cursor_lib_not_above_block (cfg : Config) (hnew : cfg.matches .new = true)
    (hundo : cfg.matches .undo = true) (hirr : cfg.matches .irreversible = true) (U : Id → Option Blk) (hU : UOK U)
    (h : List Blk) (F : List Id) (s : FState) (P : List Id) (hI : Inv s P) (hJ : Inv2 U F s.db)
    (hin : ∀ b ∈ h, U b.id = some b) (hL : Props.C01.LibHistOK cfg s h)
    (hincl : s.includeInit = false ∨ s.lastSent.isSome = true) :
    ∀ e ∈ (runHistory cfg s h).2,
      (e.step = .new → e.lib.num < e.blk.num) ∧ (e.step = .irreversible → e.lib.num = e.blk.num) := by
  induction h generalizing s P F with
  | nil => intro e he; simp [runHistory] at he
  | cons b r ih =>
    have hni : s.includeInit = false ∨ s.lastSent.isSome = true ∨ b.id ≠ s.db.libRef.id := by
      rcases hincl with h | h
      · exact Or.inl h
      · exact Or.inr (Or.inl h)
    have hbU := hin b (by simp)
    obtain ⟨P1, F1, _, hI1, hJ1, htip⟩ :=
      Props.C01.step_discipline_consistent cfg hnew hundo hirr U hU F s P b hI hJ hbU hL.1 hni
    have h1 := cursor_lib_not_above_block cfg s P b none hI hni
      (sentClosed_of_inv2 U F s.db hI.wf hI.heights hJ) (hU.wf b.id b hbU) (hb_of_inv2 U hU F s.db hJ b hbU)
    have h2 := ih F1 _ P1 hI1 hJ1 (fun x hx => hin x (by simp [hx])) hL.2
      (by rcases hincl with h | h
          · exact Or.inl (by rw [processBlock_includeInit]; exact h)
          · rcases htip with ⟨_, hsame⟩ | hsome
            · exact Or.inr (by rw [hsame]; exact h)
            · exact Or.inr hsome)
    rw [Props.C01.runHistory_cons]
    intro e he
    simp only [List.mem_append] at he
    rcases he with he | he
    · exact ⟨fun hn => ((h1 e he).1 hn).2, (h1 e he).2⟩
    · exact h2 e he

/-- **the same for the hub's configuration** (no LIB to start with, blocks held until one is discovered; hypotheses on
    the input only): in the whole event stream the cursor LIB of a New or Irreversible event never exceeds the height
    of the event's block — at the discovery step the New events carry the discovered LIB, which lies strictly below
    them (or is the block itself when a block is its own LIB), afterwards `history_cursor_lib_not_above_block` applies -/
theorem history_cursor_lib_discovery (cfg : Config) (hhold : cfg.hold = true) (hnew : cfg.matches .new = true)
    (hundo : cfg.matches .undo = true) (hirr : cfg.matches .irreversible = true)
    (U : Id → Option Blk) (hU : UOK U) (h : List Blk) (s : FState) (hP : PreInv U s)
    (hin : ∀ b ∈ h, U b.id = some b) (hL : Props.C01.LibHistOK cfg s h) :
    CursorLibOK (runHistory cfg s h).2 := by
  induction h generalizing s with
  | nil => intro e he; simp [runHistory] at he
  | cons b r ih =>
    have hd := discovery_step cfg hhold hnew hundo hirr U hU s b hP (hin b (by simp)) hL.1
    rw [Props.C01.runHistory_cons]
    have hafter : ∀ (P : List Id) (F : List Id), Inv (processBlock cfg s b none).1 P →
        Inv2 U F (processBlock cfg s b none).1.db → CursorLibOK (processBlock cfg s b none).2.1 →
        CursorLibOK ((processBlock cfg s b none).2.1 ++ (runHistory cfg (processBlock cfg s b none).1 r).2) := by
      intro P F hI hJ hc e he hs
      rcases List.mem_append.mp he with he | he
      · exact hc e he hs
      · have := history_cursor_lib_not_above_block cfg hnew hundo hirr U hU r F _ P hI hJ
          (fun x hx => hin x (by simp [hx])) hL.2 (Or.inl (by rw [processBlock_includeInit]; exact hP.noInit)) e he
        rcases hs with hs | hs
        · exact Nat.le_of_lt (this.1 hs)
        · exact Nat.le_of_eq (this.2 hs)
    rcases hd with ⟨hP', hev⟩ | ⟨_, _, hI, hJ, _, hc⟩ | ⟨Lb, news, _, _, _, hI, hJ, _, hc⟩
    · simp only
      rw [hev, List.nil_append]
      exact ih _ hP' (fun x hx => hin x (by simp [hx])) hL.2
    · exact hafter [] [b.id] hI hJ hc
    · exact hafter _ [Lb.id] hI hJ hc

end BstreamVerif.Props.C04
