import BstreamVerif.Lemmas.StepCheckSound
import BstreamVerif.Lemmas.NewHeights
import BstreamVerif.Lemmas.CursorLib
import BstreamVerif.Props.C01
/-!
# C04 — every delivered event carries a cursor describing the consumer position exactly

An event of the model is (step, block, head, lib, junction): the cursor's step and block are the event's by
construction of the encoding (the correspondence check compares the implementation's cursor fields with it).
Here: the head is the incoming block, for every state, block and handler failure point; Irreversible events carry
themselves as LIB; New/Undo events carry the forkable's cursor LIB; and the junction named by the Undo events is the
common ancestor of the abandoned and the adopted branch — the block the consumer's chain rests on once the undos
are applied. LIB monotonicity along a stream and the burst/file cursors are checked by the monitors (C05/C06 suites).
-/
namespace BstreamVerif.Props.C04
open BstreamVerif BstreamVerif.Forkable BstreamVerif.ForkDB

/-- the head block of every cursor is the incoming block that caused the delivery -/
theorem head_is_incoming_block (cfg : Config) (s : FState) (b : Blk) (f : Option Nat) :
    ∀ e ∈ (processBlock cfg s b f).2.1, e.head = b.ref := processBlock_head cfg s b f

/-- an Irreversible event's cursor LIB is the block itself -/
theorem irreversible_lib_is_itself (cfg : Config) (seg : List Entry) (head : Ref) (actual : Id → Option Blk) :
    ∀ e ∈ irrEvents cfg seg head actual, e.step = .irreversible ∧ e.lib = e.blk.ref := by
  intro e he
  unfold irrEvents at he
  split at he
  · obtain ⟨i, hi, rfl⟩ := List.getElem_of_mem he
    simp
  · simp at he

/-- Undo and re-delivered New events carry the forkable's cursor LIB (last irreversible announced, or the starting LIB) -/
theorem switch_events_lib (step : Step) (es : List Entry) (head lib : Ref) (j : Option Ref) :
    ∀ e ∈ mkEvents step es head lib j, e.lib = lib ∧ e.step = step ∧ e.junction = j := by
  intro e he
  unfold mkEvents at he
  obtain ⟨i, hi, rfl⟩ := List.getElem_of_mem he
  simp

/-- **the junction is the common ancestor**: at a chain switch from the consumer's chain `P` (LIB → old head) to the
    chain `L` of the new block's parent, the undo list is the part of `P` above the junction, newest first; the redo
    list is the part of `L` above it; and the junction is the top of their common part `Pj` — what the consumer rests
    on after the undos. -/
theorem junction_is_common_ancestor (db : DB) (hwf : WfEntries db) (hh : Heights db) (hlib : db.libRef.id ≠ "")
    (P L : List Id) (hP : IsPath db db.libRef.id P) (hPn : db.libRef.id ∉ P)
    (hL : IsPath db db.libRef.id L) (hLn : db.libRef.id ∉ L) :
    ∃ undo redo j Pj, db.chainSwitchSegments (topOf db.libRef.id P) (topOf db.libRef.id L) = some (undo, redo, j) ∧
      P = Pj ++ undo.reverse ∧ L = Pj ++ redo ∧ topOf db.libRef.id Pj = j :=
  chainSwitch_shape db hwf hh hlib P L hP hPn hL hLn

/-- whatever the buffer holds, the segments are parent-linked and meet at the junction -/
theorem segments_meet_at_junction (db : DB) (oldHead newPrev : Id) (undo redo : List Id) (j : Id)
    (h : db.chainSwitchSegments oldHead newPrev = some (undo, redo, j)) :
    IsDown db (undo ++ [j]) ∧ IsPath db j redo ∧ topOf j redo = newPrev ∧ j ∉ undo ∧ (undo = [] → j = oldHead) := by
  obtain ⟨_, h2, _, h4, h5, h6, _, h8⟩ := chainSwitchSegments_sound db oldHead newPrev undo redo j h
  exact ⟨h2, h5, h6, h8, h4⟩

/-- **the cursor LIB of every event** (forkable that knows its LIB, any handler failure point): Undo and New events
    carry the buffer's LIB as it was when the block came in — the last block announced irreversible, or the starting
    LIB (`Inv.seen`) —, Irreversible events carry themselves, and nothing else is delivered but Stalled events -/
theorem cursor_lib_of_every_event (cfg : Config) (s : FState) (P : List Id) (b : Blk) (f : Option Nat) (hI : Inv s P)
    (hni : s.includeInit = false ∨ s.lastSent.isSome = true ∨ b.id ≠ s.db.libRef.id) :
    ∀ e ∈ (processBlock cfg s b f).2.1,
      ((e.step = .undo ∨ e.step = .new) ∧ e.lib = s.db.libRef) ∨ (e.step = .irreversible ∧ e.lib = e.blk.ref) ∨
      e.step = .stalled := by
  have := processBlock_cursor_lib cfg s b f hni hI.libNe
  rw [cursorLIB_of_inv s P hI] at this
  exact this

/-- **the LIB height never decreases**: one `ProcessBlock` leaves the LIB where it was or moves it to a higher block -/
theorem lib_height_never_decreases (cfg : Config) (hnew : cfg.matches .new = true) (hundo : cfg.matches .undo = true)
    (hirr : cfg.matches .irreversible = true) (s : FState) (P : List Id) (b : Blk) (hI : Inv s P)
    (hok : Props.C01.StepOK s b) :
    s.db.libRef.num ≤ (processBlock cfg s b none).1.db.libRef.num := by
  obtain ⟨_, _, _, _, _, hshape⟩ := processBlock_step cfg hnew hundo hirr s P b hI hok.1 hok.2.1 hok.2.2.1 hok.2.2.2.1 hok.2.2.2.2
  rcases hshape with ⟨h, _⟩ | ⟨_, db2, hsb, h | ⟨R, er, h, _, _, hup⟩⟩
  · rw [h]; exact Nat.le_refl _
  · rw [h, hsb.1]; exact Nat.le_refl _
  · rw [h]
    show s.db.libRef.num ≤ R.num
    have : db2.libRef = s.db.libRef := hsb.1
    rw [this] at hup; omega

/-- **which blocks are delivered as New** (forkable that knows its LIB, any handler failure point, no invariant needed):
    every New event of one `ProcessBlock` delivers a block of the redo segment or of the new longest chain computed
    for the incoming block — nothing else is ever handed over as New -/
theorem new_events_deliver_redo_or_chain_blocks (cfg : Config) (s : FState) (b : Blk) (f : Option Nat)
    (hni : s.includeInit = false ∨ s.lastSent.isSome = true ∨ b.id ≠ s.db.libRef.id) (hlib : s.db.libRef.id ≠ "") :
    ∀ e ∈ (processBlock cfg s b f).2.1, e.step = .new →
      ∃ u rd j lc, switchSegments cfg s b (triggers cfg s b) = some (u, rd, j) ∧
        computeLongestChain cfg (afterLink s b) b = some lc ∧
        ((∃ x ∈ rd, x.blk = e.blk) ∨ (∃ x ∈ lc, x.blk = e.blk)) := by
  apply processBlock_new_from cfg s b f
    (fun blk => ∃ u rd j lc, switchSegments cfg s b (triggers cfg s b) = some (u, rd, j) ∧
      computeLongestChain cfg (afterLink s b) b = some lc ∧ ((∃ x ∈ rd, x.blk = blk) ∨ (∃ x ∈ lc, x.blk = blk))) hni hlib
  intro u rd j lc hsw hc _
  exact ⟨fun e he => ⟨u, rd, j, lc, hsw, hc, Or.inl ⟨e, he, rfl⟩⟩, fun e he => ⟨u, rd, j, lc, hsw, hc, Or.inr ⟨e, he, rfl⟩⟩⟩

end BstreamVerif.Props.C04
