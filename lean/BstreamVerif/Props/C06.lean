import BstreamVerif.Model.FileSourceSeq
import BstreamVerif.Model.Resolver
namespace BstreamVerif.Props.C06
open BstreamVerif

end BstreamVerif.Props.C06
