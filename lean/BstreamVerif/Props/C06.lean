import BstreamVerif.Model.Resolver
/-!
# C06 — resuming from a cursor out of merged files undoes forks, replays finality

`Resolver.run` is the cursor resolver wrapped around the handler of a file source that starts at the cursor's LIB
number: `canon` are the canonical blocks in file order. The theorems give the whole output for every canonical list:
blocks below the cursor block are held back; when the cursor block arrives (cursor on the canonical chain) the
canonical blocks above the cursor LIB held so far are announced Irreversible and every later block is delivered once,
in order, as new-and-irreversible; when a different block at or above the cursor height arrives (cursor on a fork)
the output is the undos of the forked blocks (newest first, naming the junction), the Irreversible announcements up
to the junction, the new-and-irreversible blocks above it; and when a forked block cannot be resolved nothing at all
was delivered and the run ends with the resolution error.
-/
namespace BstreamVerif.Props.C06
open BstreamVerif BstreamVerif.Resolver
open BstreamVerif.HubBurst (Cur)

theorem go_cons (files : List ForkFile) (c : Cur) (pt : Bool) (s : RState) (acc : List Event) (b : Blk) (rest : List Blk) :
    run.go files c pt s acc (b :: rest) =
      match (processBlock files c pt s b).2.2 with
      | some e => (acc ++ (processBlock files c pt s b).2.1, some e)
      | none => run.go files c pt (processBlock files c pt s b).1 (acc ++ (processBlock files c pt s b).2.1) rest := by
  conv => lhs; unfold run.go
  rcases processBlock files c pt s b with ⟨s', evs, e⟩
  cases e <;> rfl

theorem pb_resolved (files : List ForkFile) (c : Cur) (pt : Bool) (s : RState) (hs : s.resolved = true) (b : Blk) :
    processBlock files c pt s b = (s, [fileEv .newIrreversible b], none) := by
  simp [processBlock, hs]

theorem pb_below (files : List ForkFile) (c : Cur) (seen : List Blk) (b : Blk) (hb : b.num < c.block.num) :
    processBlock files c false ⟨seen, false⟩ b = (⟨seen ++ [b], false⟩, [], none) := by
  simp [processBlock, hb]

theorem pb_hit_new (files : List ForkFile) (c : Cur) (seen : List Blk) (b : Blk) (hb : ¬ b.num < c.block.num)
    (hid : b.id = c.block.id) (hstep : c.step ≠ .undo) :
    processBlock files c false ⟨seen, false⟩ b =
      (⟨seen ++ [b], true⟩, sendBetween .irreversible (seen ++ [b]) c.lib.num c.block.num, none) := by
  have hs : (c.step == Step.undo) = false := by simpa using hstep
  simp [processBlock, hb, hid, hs]

theorem pb_hit_undo (files : List ForkFile) (c : Cur) (seen : List Blk) (b : Blk) (hb : ¬ b.num < c.block.num)
    (hid : b.id = c.block.id) (hstep : c.step = .undo) :
    processBlock files c false ⟨seen, false⟩ b =
      (⟨seen ++ [b], true⟩,
        (if c.block.num > 0 then sendBetween .irreversible (seen ++ [b]) c.lib.num (c.block.num - 1) else []) ++
          [fileEv .newIrreversible b], none) := by
  simp [processBlock, hb, hid, hstep]

theorem pb_fork_ok (files : List ForkFile) (c : Cur) (seen : List Blk) (b : Blk) (hb : ¬ b.num < c.block.num)
    (hid : b.id ≠ c.block.id) (undos : List Blk) (j : Blk)
    (hres : resolve files (seen ++ [b]) c (files.length + 2) (trunc16 c.block.id) [] = .ok (undos, j)) :
    processBlock files c false ⟨seen, false⟩ b =
      (⟨seen ++ [b], true⟩,
        undos.map (fun u => (⟨.undo, u, c.head, c.lib, some j.ref, 0, 0⟩ : Event)) ++
          sendBetween .irreversible (seen ++ [b]) c.lib.num j.num ++
          sendBetween .newIrreversible (seen ++ [b]) j.num b.num, none) := by
  have hb' : (b.id == c.block.id) = false := by simpa using hid
  simp [processBlock, hb, hb', hres]

theorem pb_fork_err (files : List ForkFile) (c : Cur) (seen : List Blk) (b : Blk) (hb : ¬ b.num < c.block.num)
    (hid : b.id ≠ c.block.id) (e : RErr)
    (hres : resolve files (seen ++ [b]) c (files.length + 2) (trunc16 c.block.id) [] = .error e) :
    processBlock files c false ⟨seen, false⟩ b = (⟨seen ++ [b], false⟩, [], some e) := by
  have hb' : (b.id == c.block.id) = false := by simpa using hid
  simp [processBlock, hb, hb', hres]

theorem go_resolved (files : List ForkFile) (c : Cur) (pt : Bool) (s : RState) (hs : s.resolved = true)
    (acc : List Event) (rest : List Blk) :
    run.go files c pt s acc rest = (acc ++ rest.map (fileEv .newIrreversible), none) := by
  induction rest generalizing acc with
  | nil => simp [run.go]
  | cons b r ih =>
    rw [go_cons, pb_resolved files c pt s hs b]
    simp only
    rw [ih]; simp

/-- blocks below the cursor block are held back (not in pass-through mode) -/
theorem go_below (files : List ForkFile) (c : Cur) (seen pre rest : List Blk) (acc : List Event)
    (hpre : ∀ b ∈ pre, b.num < c.block.num) :
    run.go files c false ⟨seen, false⟩ acc (pre ++ rest) = run.go files c false ⟨seen ++ pre, false⟩ acc rest := by
  induction pre generalizing seen with
  | nil => simp
  | cons b r ih =>
    have hb : b.num < c.block.num := hpre b (by simp)
    rw [List.cons_append, go_cons, pb_below files c seen b hb]
    simp only [List.append_nil]
    rw [ih (seen ++ [b]) (fun x hx => hpre x (by simp [hx]))]
    simp

/-- **cursor on the canonical chain, New (or final) cursor** -/
theorem on_chain_new_cursor (files : List ForkFile) (c : Cur) (pre post : List Blk) (cb : Blk)
    (hpre : ∀ b ∈ pre, b.num < c.block.num) (hcb : cb.id = c.block.id) (hnum : ¬ cb.num < c.block.num)
    (hstep : c.step ≠ .undo) :
    run files c false (pre ++ cb :: post) =
      (sendBetween .irreversible (pre ++ [cb]) c.lib.num c.block.num ++ post.map (fileEv .newIrreversible), none) := by
  unfold run
  rw [go_below files c [] pre (cb :: post) [] hpre, go_cons, List.nil_append, pb_hit_new files c pre cb hnum hcb hstep]
  simp only [List.nil_append]
  rw [go_resolved files c false _ rfl]

/-- **cursor on the canonical chain, Undo cursor**: the cursor block itself is delivered again -/
theorem on_chain_undo_cursor (files : List ForkFile) (c : Cur) (pre post : List Blk) (cb : Blk)
    (hpre : ∀ b ∈ pre, b.num < c.block.num) (hcb : cb.id = c.block.id) (hnum : ¬ cb.num < c.block.num)
    (hstep : c.step = .undo) :
    run files c false (pre ++ cb :: post) =
      ((if c.block.num > 0 then sendBetween .irreversible (pre ++ [cb]) c.lib.num (c.block.num - 1) else []) ++
        [fileEv .newIrreversible cb] ++ post.map (fileEv .newIrreversible), none) := by
  unfold run
  rw [go_below files c [] pre (cb :: post) [] hpre, go_cons, List.nil_append, pb_hit_undo files c pre cb hnum hcb hstep]
  simp only [List.nil_append]
  rw [go_resolved files c false _ rfl]

/-- **cursor on a fork**: undos newest first naming the junction, then the finality replay, then the new blocks -/
theorem fork_cursor (files : List ForkFile) (c : Cur) (pre post : List Blk) (b : Blk)
    (hpre : ∀ x ∈ pre, x.num < c.block.num) (hid : b.id ≠ c.block.id) (hnum : ¬ b.num < c.block.num)
    (undos : List Blk) (j : Blk)
    (hres : resolve files (pre ++ [b]) c (files.length + 2) (trunc16 c.block.id) [] = .ok (undos, j)) :
    run files c false (pre ++ b :: post) =
      (undos.map (fun u => (⟨.undo, u, c.head, c.lib, some j.ref, 0, 0⟩ : Event)) ++
        sendBetween .irreversible (pre ++ [b]) c.lib.num j.num ++
        sendBetween .newIrreversible (pre ++ [b]) j.num b.num ++ post.map (fileEv .newIrreversible), none) := by
  unfold run
  rw [go_below files c [] pre (b :: post) [] hpre, go_cons, List.nil_append, pb_fork_ok files c pre b hnum hid undos j hres]
  simp only [List.nil_append]
  rw [go_resolved files c false _ rfl]

/-- **a forked block that cannot be resolved**: nothing at all was delivered, the run ends with the error -/
theorem unresolvable (files : List ForkFile) (c : Cur) (pre post : List Blk) (b : Blk)
    (hpre : ∀ x ∈ pre, x.num < c.block.num) (hid : b.id ≠ c.block.id) (hnum : ¬ b.num < c.block.num) (e : RErr)
    (hres : resolve files (pre ++ [b]) c (files.length + 2) (trunc16 c.block.id) [] = .error e) :
    run files c false (pre ++ b :: post) = ([], some e) := by
  unfold run
  rw [go_below files c [] pre (b :: post) [] hpre, go_cons, List.nil_append, pb_fork_err files c pre b hnum hid e hres]
  rfl

/-- the undone blocks come out of readable one-block files at or after the cursor LIB number, and the junction is a
    canonical block seen in the merged files -/
theorem resolve_sound (files : List ForkFile) (seen : List Blk) (c : Cur) (fuel : Nat) (prev : Id) (acc undos : List Blk)
    (j : Blk) (h : resolve files seen c fuel prev acc = .ok (undos, j)) :
    j ∈ seen ∧ ∃ more, undos = acc ++ more ∧
      ∀ u ∈ more, ∃ f ∈ files, f.blk = u ∧ f.readable = true ∧ c.lib.num ≤ f.num := by
  induction fuel generalizing prev acc with
  | zero => simp [resolve] at h
  | succ n ih =>
    unfold resolve at h
    cases hs : seenIrr seen prev with
    | some jj =>
      rw [hs] at h
      simp only [Except.ok.injEq, Prod.mk.injEq] at h
      obtain ⟨rfl, rfl⟩ := h
      exact ⟨List.mem_of_find?_eq_some hs, [], by simp, by simp⟩
    | none =>
      rw [hs] at h
      simp only at h
      cases hl : lookupFork files c.lib.num prev with
      | none => rw [hl] at h; cases h
      | some f =>
        rw [hl] at h
        simp only at h
        have hfm : f ∈ files ∧ c.lib.num ≤ f.num := by
          unfold lookupFork at hl
          have := List.mem_of_find?_eq_some hl
          simp only [List.mem_reverse, List.mem_filter, decide_eq_true_eq] at this
          exact this
        split at h
        · cases h
        · split at h
          · exact ih _ _ h
          · split at h
            · cases h
            · rename_i hr
              obtain ⟨hj, more, hm, hall⟩ := ih _ _ h
              refine ⟨hj, f.blk :: more, by rw [hm]; simp, ?_⟩
              intro u hu
              simp only [List.mem_cons] at hu
              rcases hu with rfl | hu
              · exact ⟨f, hfm.1, rfl, by simpa using hr, hfm.2⟩
              · exact hall u hu

/-- what the finality replay contains: exactly the canonical blocks seen with a number in (low, high], in file order -/
theorem sendBetween_spec (step : Step) (seen : List Blk) (lo hi : Nat) :
    (sendBetween step seen lo hi).map (·.blk) = seen.filter (fun b => decide (lo < b.num) && decide (b.num ≤ hi)) ∧
    ∀ e ∈ sendBetween step seen lo hi, e.step = step ∧ e.head = e.blk.ref ∧ e.lib = e.blk.ref := by
  unfold sendBetween
  refine ⟨?_, ?_⟩
  · rw [List.map_map]
    have : ((fun (e : Event) => e.blk) ∘ fileEv step) = id := by funext b; rfl
    rw [this, List.map_id]
  · intro e he
    obtain ⟨b, _, rfl⟩ := List.mem_map.mp he
    exact ⟨rfl, rfl, rfl⟩

end BstreamVerif.Props.C06
