/-
Small-step model of streamingfast/shutter (v1.5.0, 130 lines) and of the "obtain inner source → register its
Shutdown → run it" pattern used by JoiningSource.run, EternalSource.Run and MultiplexedSource.connectSources.

Two threads: the runner R (obtains the inner source, makes it known to the shutter in the way described by
`Pattern`, then blocks in inner.Run()) and a killer K that calls Shutdown on the outer source at any moment.
shutter.Shutdown: (1) under `lock`: set err, close terminating; (2) under the callback lock: call every callback
registered so far; (3) close terminated. A callback registered after step (2) is never called.
The model is finite; safety is proved for every interleaving by exhibiting the reachable set and checking
(by kernel evaluation of finite tables) that it is closed under every step and contains only safe states.
-/
namespace BstreamVerif.Conc.Shutter

/-- how the runner makes the inner source follow the outer shutdown -/
inductive Pattern where
  | registerOnly        -- s.OnTerminating(inner.Shutdown)                      (JoiningSource before the fix)
  | publishOnly         -- s.currentSource = inner, read by a pre-registered callback   (EternalSource before the fix)
  | registerThenCheck   -- s.OnTerminating(inner.Shutdown); if s.IsTerminating() { inner.Shutdown() }
  | lockedInit          -- s.LockedInit(func(){ publish }) else inner.Shutdown(); return
  | lockedInitLeak      -- s.LockedInit(func(){ publish }) else (only the outer source is shut down): the created
                        -- inner source is neither run nor shut down   (MultiplexedSource before the fix)
deriving DecidableEq, Repr

/-- runner program counter -/
inductive RPc where
  | obtain | publish | check | running | returned
deriving DecidableEq, Repr

/-- killer program counter (steps of shutter.Shutdown) -/
inductive KPc where
  | idle | closedTerminating | callbacksDone | done
deriving DecidableEq, Repr

structure St where
  r : RPc
  k : KPc
  known : Bool        -- inner source is registered / published (visible to the callbacks)
  innerDown : Bool    -- inner.Shutdown has been called (inner.Run returns)
deriving DecidableEq, Repr

def init : St := ⟨.obtain, .idle, false, false⟩

inductive Tid where | R | K
deriving DecidableEq, Repr

def terminating (s : St) : Bool := s.k != .idle

/-- one step of thread `t`; `none` = not enabled -/
def step (p : Pattern) (s : St) : Tid → Option St
  | .K =>
    match s.k with
    | .idle => some { s with k := .closedTerminating }                              -- lock; close(terminating); unlock
    | .closedTerminating =>                                                         -- run the callbacks registered so far
      some { s with k := .callbacksDone, innerDown := s.innerDown || s.known }
    | .callbacksDone => some { s with k := .done }                                  -- close(terminated)
    | .done => none
  | .R =>
    match s.r with
    | .obtain => some { s with r := .publish }                                      -- factory returns the inner source
    | .publish =>
      match p with
      | .registerOnly | .publishOnly =>
        -- registration takes the callback lock: it happens wholly before or wholly after the callback loop
        some { s with r := .running, known := true }
      | .registerThenCheck => some { s with r := .check, known := true }
      | .lockedInit =>
        -- LockedInit holds the shutter lock: either not yet terminating (publish succeeds) or already terminating
        if terminating s then some { s with r := .returned, innerDown := true }     -- err: inner.Shutdown(); return
        else some { s with r := .running, known := true }
      | .lockedInitLeak =>
        if terminating s then some { s with r := .returned }                        -- err: the inner source is dropped
        else some { s with r := .running, known := true }
    | .check =>
      if terminating s then some { s with r := .running, innerDown := true } else some { s with r := .running }
    | .running => if s.innerDown then some { s with r := .returned } else none      -- inner.Run() returns once shut down
    | .returned => none

/-- the property: once the outer Shutdown has completed its callbacks and the runner has got past making the inner
    source known, the inner source has been told to stop — so inner.Run(), hence the outer Run, returns. -/
def Safe (s : St) : Bool :=
  !(s.k == .callbacksDone || s.k == .done) || !(s.r == .running) || s.innerDown

/-- every inner source that was obtained is shut down by the time both threads are done: nothing is leaked -/
def NoLeak (s : St) : Bool :=
  !(s.k == .done && s.r == .returned) || s.innerDown

/-- no deadlock short of completion: if Shutdown was called and Run has not returned, some thread can move -/
def Live (p : Pattern) (s : St) : Bool :=
  !(terminating s) || s.r == .returned || (step p s .K).isSome || (step p s .R).isSome

def allStates : List St :=
  [RPc.obtain, .publish, .check, .running, .returned].flatMap fun r =>
  [KPc.idle, .closedTerminating, .callbacksDone, .done].flatMap fun k =>
  [false, true].flatMap fun a => [false, true].map fun b => ⟨r, k, a, b⟩

def succs (p : Pattern) (s : St) : List St := [Tid.R, Tid.K].filterMap (step p s)

/-- breadth-first closure of `init` under `step` (80 states in all, so 80 rounds are enough) -/
def closure (p : Pattern) : Nat → List St → List St
  | 0, acc => acc
  | n + 1, acc =>
    let new := (acc.flatMap (succs p)).filter (fun s => !acc.contains s)
    if new.isEmpty then acc else closure p n (acc ++ new.eraseDups)

def reach (p : Pattern) : List St := closure p 80 [init]

/-- `reach p` is closed under every enabled step -/
def reachClosed (p : Pattern) : Bool := (reach p).all fun s => (succs p s).all fun s' => (reach p).contains s'

end BstreamVerif.Conc.Shutter
