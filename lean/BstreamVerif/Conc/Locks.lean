/-
Facts about the synchronisation skeleton of /repo that the fact extractor regenerates on every run, and the
small-step models they parameterise (hub subscription registration C08, block-stream server C20, file source C10/C11).
-/
namespace BstreamVerif.Conc.Locks

inductive LockKind where
  | none | read | write
deriving DecidableEq, Repr

structure HubFacts where
  burstLocks : List LockKind        -- lock taken by CallWithBlocksFromNum / FromCursor / ThroughCursor
  processLock : LockKind            -- lock taken by Forkable.ProcessBlock (hub.processBlock runs inside it)
  subscribeGuarded : Bool           -- hub.subscribe appends under its own mutex
  unsubscribeGuarded : Bool
deriving Repr

structure ServerFacts where
  pushLock : LockKind
  subscribeLock : LockKind
  unsubscribeLock : LockKind
  closeOnce : Bool
deriving Repr

structure FileSrcFacts where
  fileStreamCap : Nat
  runSelectsTerminating : Bool
  readErrShutdownBeforeClose : Bool
  /-- streamReader makes one result channel per block, queues it on `preprocessed` in read order and only then
      starts the preprocessing goroutine with that channel -/
  resultChanQueuedInReadOrder : Bool := false
  /-- the forwarding goroutine takes the next result channel from `preprocessed`, waits for its block, then forwards -/
  forwarderSequential : Bool := false
deriving Repr

/-- the ordered-pipeline skeleton of `Conc/Pipeline.lean` is what the code does -/
def FileSrcFacts.orderedPipeline (f : FileSrcFacts) : Bool := f.resultChanQueuedInReadOrder && f.forwarderSequential

/-- burst computation + registration is atomic w.r.t. the feeder: some lock is held that excludes the writer -/
def HubFacts.atomicWithFeeder (f : HubFacts) : Bool :=
  f.burstLocks.all (· != .none) && f.processLock == .write

/-- registrations exclude each other: own mutex, or every burst takes the write lock -/
def HubFacts.registrationsExclusive (f : HubFacts) : Bool :=
  (f.subscribeGuarded && f.unsubscribeGuarded) || f.burstLocks.all (· == .write)

def HubFacts.Safe (f : HubFacts) : Bool := f.atomicWithFeeder && f.registrationsExclusive

def ServerFacts.Safe (f : ServerFacts) : Bool :=
  f.pushLock != .none && f.subscribeLock == .write && f.unsubscribeLock == .write && f.closeOnce

def FileSrcFacts.Safe (f : FileSrcFacts) : Bool :=
  f.runSelectsTerminating && f.readErrShutdownBeforeClose

/-! ### two concurrent registrations on a shared slice (read-modify-write `subs = append(subs, me)`) -/

/-- per-subscriber program counter: before / read the slice (holding it in a local) / written -/
inductive SPc where | start | haveRead | done
deriving DecidableEq, Repr

structure RegSt where
  (pcA pcB : SPc)
  (localA localB : Nat)      -- length of the slice each one read
  shared : Nat             -- number of registrations in the shared slice
  (hasA hasB : Bool)         -- whose registration is in the shared slice
  mutex : Option Bool      -- who holds the registration mutex (A = true)
deriving DecidableEq, Repr

def regInit : RegSt := ⟨.start, .start, 0, 0, 0, false, false, none⟩

/-- one step of subscriber A (`who = true`) or B; `exclusive` = registrations take a mutex -/
def regStep (exclusive : Bool) (s : RegSt) (who : Bool) : Option RegSt :=
  if who then
    match s.pcA with
    | .start =>
      if exclusive then (if s.mutex.isSome then none else some { s with pcA := .haveRead, localA := s.shared, mutex := some true })
      else some { s with pcA := .haveRead, localA := s.shared }
    | .haveRead =>
      -- writes back (what it read) ++ [A]: anything appended in between by B is lost
      some { s with pcA := .done, shared := s.localA + 1, hasA := true, hasB := s.hasB && decide (s.localA ≥ 1) && s.pcB == .done && decide (s.localB < s.localA),
                    mutex := if exclusive then none else s.mutex }
    | .done => none
  else
    match s.pcB with
    | .start =>
      if exclusive then (if s.mutex.isSome then none else some { s with pcB := .haveRead, localB := s.shared, mutex := some false })
      else some { s with pcB := .haveRead, localB := s.shared }
    | .haveRead =>
      some { s with pcB := .done, shared := s.localB + 1, hasB := true, hasA := s.hasA && decide (s.localB ≥ 1) && s.pcA == .done && decide (s.localA < s.localB),
                    mutex := if exclusive then none else s.mutex }
    | .done => none

def regSuccs (ex : Bool) (s : RegSt) : List RegSt := [true, false].filterMap (regStep ex s)

def regClosure (ex : Bool) : Nat → List RegSt → List RegSt
  | 0, acc => acc
  | n + 1, acc =>
    let new := (acc.flatMap (regSuccs ex)).filter (fun s => !acc.contains s)
    if new.isEmpty then acc else regClosure ex n (acc ++ new.eraseDups)

def regReach (ex : Bool) : List RegSt := regClosure ex 40 [regInit]

/-- no registration is ever lost: when both are done both are in the slice -/
def regSafe (s : RegSt) : Bool := !(s.pcA == .done && s.pcB == .done) || (s.hasA && s.hasB)

def regReachClosed (ex : Bool) : Bool := (regReach ex).all fun s => (regSuccs ex s).all fun s' => (regReach ex).contains s'

/-! ### `Server.subscribe` against `PushBlock` (block-stream server, C20)

The producer pushes blocks 0, 1, 2, …; one subscriber takes its burst from the buffer (a snapshot of what was pushed
so far) and registers itself in the fan-out list. `atomic` = the two happen under the server's write lock, which
excludes `PushBlock` (read lock). -/

structure SubSt where
  pushed     : Nat               -- blocks pushed so far (block k is the (k+1)-th push)
  snap       : Option Nat        -- how many blocks had been pushed when the burst was taken
  registered : Bool              -- the subscription is in the fan-out list
  live       : List Nat          -- blocks fanned out to it after registration
deriving DecidableEq, Repr

inductive SAct where | push | snapshot | register | subscribeLocked
deriving DecidableEq, Repr

def lockInit : SubSt := ⟨0, none, false, []⟩

/-- one step; a disabled action leaves the state unchanged -/
def lockStep (atomic : Bool) (s : SubSt) : SAct → SubSt
  | .push => { s with pushed := s.pushed + 1, live := if s.registered then s.live ++ [s.pushed] else s.live }
  | .snapshot => if !atomic && s.snap.isNone then { s with snap := some s.pushed } else s
  | .register => if !atomic && s.snap.isSome && !s.registered then { s with registered := true } else s
  | .subscribeLocked => if atomic && s.snap.isNone then { s with snap := some s.pushed, registered := true } else s

def lockRun (atomic : Bool) (s : SubSt) (sched : List SAct) : SubSt := sched.foldl (lockStep atomic) s

/-- what the subscriber has been handed: its burst may cover any block below the snapshot, the fan-out must cover
    every block from the snapshot on -/
def lockGapless (s : SubSt) : Prop :=
  match s.snap with
  | some k => s.registered = true → s.live = List.range' k (s.pushed - k)
  | none => True

/-- invariant of the locked subscription: the fan-out is exactly the blocks pushed since the snapshot -/
theorem lock_inv (sched : List SAct) (s : SubSt)
    (h : (s.snap = none ∧ s.registered = false ∧ s.live = []) ∨
         (∃ k, s.snap = some k ∧ s.registered = true ∧ k ≤ s.pushed ∧ s.live = List.range' k (s.pushed - k))) :
    (let t := lockRun true s sched
     (t.snap = none ∧ t.registered = false ∧ t.live = []) ∨
     (∃ k, t.snap = some k ∧ t.registered = true ∧ k ≤ t.pushed ∧ t.live = List.range' k (t.pushed - k))) := by
  induction sched generalizing s with
  | nil => exact h
  | cons a r ih =>
    apply ih
    rcases h with ⟨h1, h2, h3⟩ | ⟨k, h1, h2, h3, h4⟩
    · cases a with
      | push => left; simp [lockStep, h1, h2, h3]
      | snapshot => left; simp [lockStep, h1, h2, h3]
      | register => left; simp [lockStep, h1, h2, h3]
      | subscribeLocked =>
        right
        refine ⟨s.pushed, ?_⟩
        simp [lockStep, h1, h3]
    · right
      cases a with
      | push =>
        refine ⟨k, ?_⟩
        simp only [lockStep, h1, h2, if_true, true_and]
        refine ⟨by omega, ?_⟩
        rw [h4]
        have : s.pushed + 1 - k = (s.pushed - k) + 1 := by omega
        rw [this, List.range'_concat]
        congr 2
        omega
      | snapshot => exact ⟨k, by simp [lockStep, h1, h2, h3, h4]⟩
      | register => exact ⟨k, by simp [lockStep, h1, h2, h3, h4]⟩
      | subscribeLocked => exact ⟨k, by simp [lockStep, h1, h2, h3, h4]⟩

/-- **no block is lost between the burst and the fan-out**, for every interleaving of pushes with a subscription
    taken under the write lock -/
theorem locked_gapless (sched : List SAct) : lockGapless (lockRun true lockInit sched) := by
  have h := lock_inv sched lockInit (Or.inl ⟨rfl, rfl, rfl⟩)
  simp only at h
  unfold lockGapless
  rcases h with ⟨h1, _, _⟩ | ⟨k, h1, _, _, h4⟩
  · rw [h1]; trivial
  · rw [h1]; intro _; exact h4

/-- kernel-checked counter-schedule: with the burst taken before the lock (snapshot, push, register, push), the
    block pushed in between is in neither the burst nor the fan-out -/
theorem unlocked_loses :
    ¬ lockGapless (lockRun false lockInit [.snapshot, .push, .register, .push]) := by
  have e : lockRun false lockInit [.snapshot, .push, .register, .push] = ⟨2, some 0, true, [1]⟩ := by decide
  rw [e]
  unfold lockGapless
  simp only
  intro h
  exact absurd (h trivial) (by decide)


end BstreamVerif.Conc.Locks
