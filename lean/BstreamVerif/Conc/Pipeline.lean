/-
Interleaving model of the preprocessing pipeline of FileSource.streamReader (filesource.go): the reader thread takes
blocks in file order; for each it creates a one-slot result channel, queues it on the bounded channel `preprocessed`
(capacity = number of preprocessor threads) and starts a goroutine that computes the preprocess result and puts it in
that channel; the forwarder thread takes the next result channel from `preprocessed`, waits for its result and hands
(block, result) on. Workers finish in any order; the schedule is arbitrary.
-/
namespace BstreamVerif.Conc.Pipeline

structure St (α β : Type) where
  todo : List α                    -- blocks not yet read, in file order
  q : List (α × Option β)          -- queued result channels, oldest first: block + result once its worker is done
  delivered : List (α × β)         -- handed to the consumer, in order
deriving Repr

inductive Act where
  | read                           -- reader: queue a result channel for the next block and start its worker
  | finish (i : Nat)               -- the worker of the i-th queued channel completes (any order)
  | forward                        -- forwarder: the oldest queued channel has its result: hand it on
deriving Repr

def setDone {α β : Type} (f : α → β) : Nat → List (α × Option β) → Option (List (α × Option β))
  | _, [] => none
  | 0, (b, none) :: r => some ((b, some (f b)) :: r)
  | 0, (_, some _) :: _ => none
  | i + 1, x :: r => (setDone f i r).map (x :: ·)

/-- one step; `none` = not enabled -/
def step {α β : Type} (f : α → β) (cap : Nat) (s : St α β) : Act → Option (St α β)
  | .read =>
    match s.todo with
    | b :: rest => if s.q.length < cap then some { s with todo := rest, q := s.q ++ [(b, none)] } else none
    | [] => none
  | .finish i => (setDone f i s.q).map (fun q' => { s with q := q' })
  | .forward =>
    match s.q with
    | (b, some r) :: rest => some { s with q := rest, delivered := s.delivered ++ [(b, r)] }
    | _ => none

/-- run a schedule; an action that is not enabled is skipped -/
def run {α β : Type} (f : α → β) (cap : Nat) : St α β → List Act → St α β
  | s, [] => s
  | s, a :: as => match step f cap s a with
    | some s' => run f cap s' as
    | none => run f cap s as

def init {α β : Type} (input : List α) : St α β := ⟨input, [], []⟩

end BstreamVerif.Conc.Pipeline
