import BstreamVerif.Drv.Range
import BstreamVerif.Drv.Cursor
import BstreamVerif.Drv.Gates
import BstreamVerif.Drv.Server
import BstreamVerif.Drv.ForkableDrv
import BstreamVerif.Drv.Files
import BstreamVerif.Drv.IndexDrv
import BstreamVerif.Drv.FileDrv
import BstreamVerif.Drv.StreamDrv
import BstreamVerif.Drv.ConcDrv
import BstreamVerif.Drv.HubReady
/-
bsmodel: reads the harness file (op / impl lines grouped in cases) on stdin, prints for every `op`
line the model's answer (`model …`) and the monitor verdict on the implementation's answer.
Protocol:   case <n> <suite> <cfg…> / op <…> / impl <…> / end
Stateless suites answer every op independently; stateful suites get the whole case.
-/
open BstreamVerif.Drv

/-- stateless suites: (op words, impl words) → (model answer, monitor reason) -/
def statelessOp (suite : String) (ws impl : List String) : Option (String × String) :=
  match suite with
  | "range" => some (RangeDrv.opT ws, RangeDrv.monitor ws impl)
  | "cursor" => some (CursorDrv.op ws, CursorDrv.monitor ws impl)
  | "oneblock" => some (FilesDrv.opOneBlock ws, FilesDrv.monitorOneBlock ws impl)
  | _ => none

/-- stateful suites: header, body lines (each already split) → output lines -/
def statefulCase (suite : String) (hdr : List String) (body : List (List String)) : Option (List String) :=
  match suite with
  | "gates" | "gator" | "minfilter" | "tripper" => some (GatesDrv.handle hdr body)
  | "server" => some (ServerDrv.handle hdr body)
  | "forkable" | "hubburst" => some (ForkableDrv.handle hdr body)
  | "dbin" => some (FilesDrv.handleDbin hdr body)
  | "index" => some (IndexDrv.handle hdr body)
  | "filesrc" => some (FileDrv.handleFileSrc hdr body)
  | "faults" => some (FileDrv.handleFaults hdr body)
  | "indexsrc" => some (FileDrv.handleIndexSrc hdr body)
  | "resolver" => some (FileDrv.handleResolver hdr body)
  | "stream" => some (StreamDrv.handle hdr body)
  | "shutdown" => some (ConcDrv.handleShutdown hdr body)
  | "hubsubs" => some (ConcDrv.handleHubSubs hdr body)
  | "serverconc" => some (ConcDrv.handleServerConc hdr body)
  | "hubready" => some (HubReady.handle hdr body)
  | _ => none

def processCase (out : IO.FS.Stream) (hdr : List String) (body : Array (List String)) : IO Unit := do
  let suite := hdr.getD 1 ""
  out.putStrLn (unwords ("case" :: hdr))
  match statefulCase suite hdr body.toList with
  | some lines => for l in lines do out.putStrLn l
  | none =>
    -- stateless: pair each `op` with the `impl` lines that follow it
    let mut i := 0
    while i < body.size do
      let l := body[i]!
      if l.head? == some "op" then
        let ws := l.drop 1
        let impl := if i + 1 < body.size && (body[i+1]!).head? == some "impl" then (body[i+1]!).drop 1 else []
        match statelessOp suite ws impl with
        | some (ans, mon) =>
          out.putStrLn ("model " ++ ans)
          if mon ≠ "" then out.putStrLn ("monitor FAIL " ++ mon)
        | none => out.putStrLn "model unknown-suite"
      i := i + 1
  out.putStrLn "end"

partial def loop (inp out : IO.FS.Stream) (hdr : Option (List String)) (body : Array (List String)) : IO Unit := do
  let line ← inp.getLine
  if line.isEmpty then return ()
  let ws := words line
  match ws with
  | "case" :: rest => loop inp out (some rest) #[]
  | ["end"] =>
    match hdr with
    | some h => processCase out h body; loop inp out none #[]
    | none => loop inp out none #[]
  | [] => loop inp out hdr body
  | _ => loop inp out hdr (body.push ws)

def main : IO Unit := do
  let inp ← IO.getStdin
  let out ← IO.getStdout
  loop inp out none #[]
