package main

import (
	"encoding/hex"
	"fmt"
	"os"
	"strings"
	"time"

	"github.com/streamingfast/bstream"
)

func init() {
	suites["range"] = suiteRange
	replaySuites["range"] = replayRange
}

type rng4 struct {
	start    uint64
	end      *uint64
	exS, exE bool
}

func (r rng4) tok() string {
	e := "nil"
	if r.end != nil {
		e = fmt.Sprint(*r.end)
	}
	return fmt.Sprintf("%d,%s,%d,%d", r.start, e, b2i(r.exS), b2i(r.exE))
}
func b2i(b bool) int {
	if b {
		return 1
	}
	return 0
}

// build a *bstream.Range with arbitrary flags using only the public API
func (r rng4) build() (*bstream.Range, bool) {
	var opts []bstream.RangeOptions
	if r.exS {
		opts = append(opts, bstream.WithExclusiveStart())
	}
	if r.exE {
		opts = append(opts, bstream.WithExclusiveEnd())
	}
	if r.end == nil {
		// NewOpenRange forces exclusive end; flags of an open range: use it and require exE
		if !r.exE || r.exS {
			return nil, false
		}
		return bstream.NewOpenRange(r.start), true
	}
	if *r.end <= r.start {
		return nil, false
	}
	// ParseRange is the only public constructor taking options; it is limited to int64. Use the
	// typed constructors for the two common flag pairs and ParseRange for the others when possible.
	switch {
	case !r.exS && !r.exE:
		return bstream.NewInclusiveRange(r.start, *r.end), true
	case !r.exS && r.exE:
		return bstream.NewRangeExcludingEnd(r.start, *r.end), true
	default:
		if *r.end >= 1<<63 {
			return nil, false
		}
		rr, err := bstream.ParseRange(fmt.Sprintf("%d-%d", r.start, *r.end), opts...)
		if err != nil {
			return nil, false
		}
		return rr, true
	}
}

func tokOf(r *bstream.Range) string {
	s := r.String() // "[10, 20)" / "(10, nil]"
	exS := strings.HasPrefix(s, "(")
	exE := strings.HasSuffix(s, ")")
	e := "nil"
	if r.EndBlock() != nil {
		e = fmt.Sprint(*r.EndBlock())
	} else {
		// String() prints "nil]" for open ranges whatever the flag; every open range of this suite
		// descends from NewOpenRange (exclusive-end flag set, copied by Next/Previous)
		exE = true
	}
	return fmt.Sprintf("%d,%s,%d,%d", r.StartBlock(), e, b2i(exS), b2i(exE))
}

func genRange(r *Rng) rng4 {
	var g rng4
	g.start = r.Height()
	switch r.Intn(12) {
	case 0:
		g.end = nil
		g.exE = true
		return g
	case 1, 2, 3:
		e := g.start + uint64(1+r.Intn(40))
		g.end = &e
	case 4, 5:
		e := g.start + uint64(1+r.Intn(100000))
		g.end = &e
	default:
		e := r.Height()
		g.end = &e
	}
	g.exS = r.Intn(3) == 0
	g.exE = r.Bool()
	if *g.end <= g.start { // make it valid most of the time
		if r.Intn(5) != 0 {
			s, e := *g.end, g.start
			if s == e {
				e = s + 1
			}
			g.start = s
			g.end = &e
		}
	}
	return g
}

func genChunk(r *Rng, g rng4) uint64 {
	switch r.Intn(10) {
	case 0:
		return pool64[r.Intn(len(pool64))]
	case 1:
		return 1
	case 2, 3, 4, 5:
		return uint64(1 + r.Intn(12))
	case 6:
		if g.end != nil {
			return (*g.end - g.start) / uint64(1+r.Intn(6))
		}
		return 7
	case 7:
		if g.end != nil {
			return *g.end - g.start + uint64(r.Intn(3)) - 1
		}
		return 7
	default:
		return uint64(r.Intn(1000))
	}
}

// guarded runs f with panic recovery and a watchdog; returns "panic"/"hang" or f's string.
func guarded(o *Out, f func() string) string {
	ch := make(chan string, 1)
	go func() {
		defer func() {
			if e := recover(); e != nil {
				ch <- "panic"
			}
		}()
		ch <- f()
	}()
	select {
	case s := <-ch:
		return s
	case <-time.After(3 * time.Second):
		// the runaway goroutine cannot be stopped: report and leave (exit code 3 = hang)
		o.Impl("hang")
		o.End()
		os.Exit(3)
		return ""
	}
}

func runRangeOp(o *Out, rg *Rng, ws []string) {
	// ws is the op line split; executes against the implementation
	parse := func(t string) (rng4, *bstream.Range, bool) {
		var g rng4
		p := strings.Split(t, ",")
		if len(p) != 4 {
			return g, nil, false
		}
		fmt.Sscan(p[0], &g.start)
		if p[1] != "nil" {
			var e uint64
			fmt.Sscan(p[1], &e)
			g.end = &e
		}
		g.exS = p[2] == "1"
		g.exE = p[3] == "1"
		r, ok := g.build()
		return g, r, ok
	}
	u := func(s string) uint64 { var v uint64; fmt.Sscan(s, &v); return v }
	o.Op("%s", strings.Join(ws, " "))
	if ws[0] == "twice" {
		// the same method twice on the same range values, then the receiver observed again: the methods are queries,
		// they must not change the range they are called on
		inner := ws[1:]
		_, r, _ := parse(inner[1])
		var r2 *bstream.Range
		if inner[0] == "isnext" {
			_, r2, _ = parse(inner[2])
		}
		res := guarded(o, func() string {
			do := func() string {
				switch inner[0] {
				case "contains":
					return fmt.Sprint(r.Contains(u(inner[2])))
				case "reached":
					return fmt.Sprint(r.ReachedEndBlock(u(inner[2])))
				case "next":
					return tokOf(r.Next(u(inner[2])))
				case "previous":
					return tokOf(r.Previous(u(inner[2])))
				case "isnext":
					return fmt.Sprint(r.IsNext(r2, u(inner[3])))
				case "split":
					cs, err := r.Split(u(inner[2]))
					if err != nil {
						return "open"
					}
					var parts []string
					for _, c := range cs {
						parts = append(parts, tokOf(c))
					}
					return "ok:" + strings.Join(parts, ";")
				}
				return "bad-op"
			}
			a := do()
			b := do()
			out := a + " " + b + " recv=" + tokOf(r)
			if r2 != nil {
				out += " arg=" + tokOf(r2)
			}
			return out
		})
		o.Impl("%s", res)
		return
	}
	res := guarded(o, func() string {
		switch ws[0] {
		case "contains":
			_, r, _ := parse(ws[1])
			return fmt.Sprint(r.Contains(u(ws[2])))
		case "reached":
			_, r, _ := parse(ws[1])
			return fmt.Sprint(r.ReachedEndBlock(u(ws[2])))
		case "next":
			_, r, _ := parse(ws[1])
			return tokOf(r.Next(u(ws[2])))
		case "previous":
			_, r, _ := parse(ws[1])
			return tokOf(r.Previous(u(ws[2])))
		case "isnext":
			_, r, _ := parse(ws[1])
			_, r2, _ := parse(ws[2])
			return fmt.Sprint(r.IsNext(r2, u(ws[3])))
		case "size":
			_, r, _ := parse(ws[1])
			v, err := r.Size()
			if err != nil {
				return "open"
			}
			return fmt.Sprint(v)
		case "containing":
			r, err := bstream.NewRangeContaining(u(ws[1]), u(ws[2]))
			if err != nil {
				return "err"
			}
			return "ok " + tokOf(r)
		case "split":
			_, r, _ := parse(ws[1])
			cs, err := r.Split(u(ws[2]))
			if err != nil {
				return "open"
			}
			var parts []string
			for _, c := range cs {
				parts = append(parts, tokOf(c))
			}
			return "ok " + strings.Join(parts, ";")
		case "parse":
			var in []byte
			if ws[1] != "-" {
				in, _ = hex.DecodeString(ws[1])
			}
			r, err := bstream.ParseRange(string(in))
			if err != nil {
				m := err.Error()
				switch {
				case strings.HasPrefix(m, "input is required"):
					return "err required"
				case strings.HasPrefix(m, "invalid start block"):
					return "err start"
				case strings.HasPrefix(m, "invalid stop block"):
					return "err stop"
				case strings.HasPrefix(m, "making range"):
					return "err making"
				case strings.HasPrefix(m, "invalid range"):
					return "err bounds"
				}
				return "err other"
			}
			return "ok " + tokOf(r)
		}
		return "bad-op"
	})
	o.Impl("%s", res)
}

func genParseInput(r *Rng) []byte {
	alpha := []string{"0", "1", "5", "9", "10", "20", "007", "9223372036854775807", "9223372036854775808", "18446744073709551615",
		"-", ":", " ", "+", "a", "x", "_", ",", ".", "\xff", "é", "٣", "\x00", "--", "1e3", "0x10", "\t", "99999999999999999999999"}
	switch r.Intn(6) {
	case 0: // well-formed
		a, b := r.Height(), r.Height()
		seps := []string{"-", ":", " - ", " : ", "- ", ":-"}
		return []byte(fmt.Sprintf("%d%s%d", a>>uint(r.Intn(3)), seps[r.Intn(len(seps))], b>>uint(r.Intn(3))))
	case 1: // single bound / only separators
		opts := []string{"5", "5-", "-", ":", "-5", "", " ", "::", "5:", ":5", "- -", "a-b", "5-a", "a-5"}
		return []byte(opts[r.Intn(len(opts))])
	default:
		n := r.Intn(7)
		var sb strings.Builder
		for i := 0; i < n; i++ {
			sb.WriteString(alpha[r.Intn(len(alpha))])
		}
		return []byte(sb.String())
	}
}

// maybeTwice wraps a query on a range into the "twice" form in a quarter of the cases
func maybeTwice(r *Rng, ws []string) []string {
	switch ws[0] {
	case "contains", "reached", "next", "previous", "isnext", "split":
		if r.Intn(4) == 0 {
			return append([]string{"twice"}, ws...)
		}
	}
	return ws
}

func suiteRange(o *Out, r *Rng, n int, tier string) {
	for i := 0; i < n; i++ {
		o.Case("range")
		nops := 1 + r.Intn(6)
		for j := 0; j < nops; j++ {
			g := genRange(r)
			_, ok := g.build()
			kind := r.Intn(14)
			if !ok && kind < 10 {
				o.Stat("range.unbuildable", 1)
				// exercise the constructor's rejection instead
				kind = 12
			}
			pt := func() uint64 { // a point near a bound
				b := g.start
				if g.end != nil && r.Bool() {
					b = *g.end
				}
				if r.Intn(4) == 0 {
					return r.Height()
				}
				return b + uint64(r.Intn(5)) - 2
			}
			switch kind {
			case 0, 1:
				o.Stat("range.op.contains", 1)
				runRangeOp(o, r, maybeTwice(r, []string{"contains", g.tok(), fmt.Sprint(pt())}))
			case 2:
				o.Stat("range.op.reached", 1)
				runRangeOp(o, r, maybeTwice(r, []string{"reached", g.tok(), fmt.Sprint(pt())}))
			case 3:
				o.Stat("range.op.next", 1)
				runRangeOp(o, r, maybeTwice(r, []string{"next", g.tok(), fmt.Sprint(genChunk(r, g))}))
			case 4:
				o.Stat("range.op.previous", 1)
				runRangeOp(o, r, maybeTwice(r, []string{"previous", g.tok(), fmt.Sprint(genChunk(r, g))}))
			case 5:
				o.Stat("range.op.isnext", 1)
				sz := genChunk(r, g)
				g2 := g
				if g.end != nil && r.Intn(3) != 0 { // the true successor (when it is buildable), else a random one
					e2 := *g.end + sz
					g2 = rng4{start: *g.end, end: &e2, exS: g.exS, exE: g.exE}
					if r.Intn(4) == 0 {
						g2.exE = !g2.exE
					}
				} else if g.end == nil && r.Intn(3) != 0 {
					// an open-ended receiver: its successor is the open-ended range shifted by size — and a *bounded* range
					// starting there is a near miss, not the successor
					g2 = rng4{start: g.start + sz, exS: g.exS, exE: g.exE}
					if r.Intn(2) == 0 {
						e2 := g2.start + 1 + uint64(r.Intn(50))
						g2.end = &e2
						o.Stat("range.isnext.bounded_candidate_for_open_receiver", 1)
					}
					if r.Intn(4) == 0 {
						g2.exS = !g2.exS
					}
				} else {
					g2 = genRange(r)
				}
				if _, ok2 := g2.build(); !ok2 {
					o.Stat("range.unbuildable", 1)
					continue
				}
				runRangeOp(o, r, maybeTwice(r, []string{"isnext", g.tok(), g2.tok(), fmt.Sprint(sz)}))
			case 6:
				o.Stat("range.op.size", 1)
				runRangeOp(o, r, maybeTwice(r, []string{"size", g.tok()}))
			case 7, 8, 9:
				c := genChunk(r, g)
				if c == 0 {
					c = 1
				}
				if g.end != nil && (*g.end-g.start)/c > 300 {
					o.Stat("range.split.skipped_huge", 1)
					continue
				}
				o.Stat("range.op.split", 1)
				if g.exS && g.exE {
					o.Stat("range.split.both_exclusive", 1)
				}
				if g.end != nil && *g.end > ^uint64(0)-1000 {
					o.Stat("range.split.near_max", 1)
				}
				runRangeOp(o, r, maybeTwice(r, []string{"split", g.tok(), fmt.Sprint(c)}))
			case 10, 11:
				o.Stat("range.op.parse", 1)
				in := genParseInput(r)
				h := "-"
				if len(in) > 0 {
					h = hex.EncodeToString(in)
				}
				runRangeOp(o, r, maybeTwice(r, []string{"parse", h}))
			case 12:
				o.Stat("range.op.containing", 1)
				sz := genChunk(r, g)
				n := pt()
				if sz != 0 && (n-n%sz)+sz <= n-n%sz { // constructor panics by contract on wrap; skip
					continue
				}
				runRangeOp(o, r, maybeTwice(r, []string{"containing", fmt.Sprint(n), fmt.Sprint(sz)}))
			default:
				continue
			}
		}
		o.End()
	}
}

func replayRange(o *Out, lines []string) {
	replayStateless(o, "range", lines, func(o *Out, ws []string) { runRangeOp(o, nil, ws) })
}
