package main

import (
	"fmt"
	"strings"
	"time"

	"github.com/streamingfast/bstream/blockstream"
	pbbstream "github.com/streamingfast/bstream/pb/sf/bstream/v1"
	"google.golang.org/protobuf/types/known/timestamppb"
)

func init() {
	suites["server"] = suiteServer
	replaySuites["server"] = replayServer
}

// serverBlockNum derives a block height from the id (so that op lines stay "push <id>"): mostly ascending in push
// order, with regular dips — a fork block arrives with a lower number than blocks already buffered. Neither the
// server nor the model may care.
func serverBlockNum(id string) uint64 {
	n, digits := 0, false
	for _, c := range id {
		if c >= '0' && c <= '9' {
			n, digits = n*10+int(c-'0'), true
		}
	}
	if !digits {
		return 1
	}
	return uint64(100 + n - []int{0, 0, 2, 0, 3, 1, 0}[n%7])
}

func runServerCase(o *Out, buffered bool, size int, ops [][]string) {
	o.Case("server", b2i(buffered), size)
	var s *blockstream.Server
	if buffered {
		s = blockstream.NewUnmanagedServer(blockstream.ServerOptionWithBuffer(size))
	} else {
		s = blockstream.NewUnmanagedServer()
	}
	var subs []*blockstream.VerifSub
	ts := timestamppb.New(time.Unix(1600000000, 0))
	for _, ws := range ops {
		o.Op("%s", strings.Join(ws, " "))
		res := guarded(o, func() string {
			switch ws[0] {
			case "push":
				err := s.PushBlock(&pbbstream.Block{Id: ws[1], Number: serverBlockNum(ws[1]), ParentId: "p", Timestamp: ts})
				if err != nil {
					return "err"
				}
				return "ok"
			case "sub":
				var n int64
				fmt.Sscan(ws[1], &n)
				var v *blockstream.VerifSub
				done := false
				defer func() {
					if !done {
						subs = append(subs, nil) // keep indices aligned when subscribe panics
					}
				}()
				v = s.VerifSubscribe(int(n))
				done = true
				subs = append(subs, v)
				if v == nil {
					return "nil"
				}
				q := 0
				_ = q
				return fmt.Sprintf("sub %d %d", v.Cap(), v.Len())
			case "unsub":
				var i int
				fmt.Sscan(ws[1], &i)
				if i < len(subs) && subs[i] != nil {
					s.VerifUnsubscribe(subs[i])
				}
				return "ok"
			case "recv":
				var i int
				fmt.Sscan(ws[1], &i)
				if i >= len(subs) || subs[i] == nil {
					return "nosub"
				}
				b, open, empty := subs[i].TryRecv()
				if empty {
					return "empty"
				}
				if !open {
					return "closed"
				}
				return "blk " + b.Id
			case "ready":
				return fmt.Sprint(s.Ready())
			case "buf":
				ids := s.VerifBufferIDs()
				if len(ids) == 0 {
					return "-"
				}
				return strings.Join(ids, ",")
			}
			return "bad-op"
		})
		o.Impl("%s", res)
	}
	o.End()
}

func suiteServer(o *Out, r *Rng, n int, tier string) {
	for i := 0; i < n; i++ {
		if r.Intn(50) == 0 {
			// a large buffer and a large burst: the subscriber gets the burst plus its 200 slots of slack, whatever the size
			o.Stat("server.big_buffer_case", 1)
			size := []int{850, 1100, 1300}[r.Intn(3)]
			var ops [][]string
			for j := 0; j < size+10; j++ {
				ops = append(ops, []string{"push", fmt.Sprintf("b%d", j)})
			}
			burst := []int64{830, 1000, int64(size), 9223372036854775807}[r.Intn(4)]
			ops = append(ops, []string{"sub", fmt.Sprint(burst)}, []string{"sub", "3"})
			for j := 0; j < 200; j++ {
				ops = append(ops, []string{"push", fmt.Sprintf("c%d", j)})
			}
			for j := 0; j < size+215; j++ {
				ops = append(ops, []string{"recv", "0"})
			}
			ops = append(ops, []string{"push", "after"}, []string{"recv", "0"}, []string{"recv", "1"}, []string{"ready"})
			runServerCase(o, true, size, ops)
			continue
		}
		buffered := r.Intn(6) != 0
		size := []int{0, 1, 2, 3, 3, 5, 8}[r.Intn(7)]
		nops := 5 + r.Intn(40)
		var ops [][]string
		nsubs := 0
		next := 0
		overflowCase := r.Intn(6) == 0
		for j := 0; j < nops; j++ {
			k := r.Intn(20)
			switch {
			case k < 8:
				id := fmt.Sprintf("b%d", next)
				if r.Intn(5) == 0 && next > 0 { // repeated id
					id = fmt.Sprintf("b%d", r.Intn(next))
					o.Stat("server.push.repeated_id", 1)
				} else {
					next++
				}
				ops = append(ops, []string{"push", id})
			case k < 11:
				var burst int64
				switch r.Intn(8) {
				case 0:
					burst = -1
					o.Stat("server.sub.negative_burst", 1)
				case 1:
					burst = -9223372036854775808
					o.Stat("server.sub.negative_burst", 1)
				case 2:
					burst = 9223372036854775807
				case 3:
					burst = 0
				default:
					burst = int64(r.Intn(10))
				}
				ops = append(ops, []string{"sub", fmt.Sprint(burst)})
				nsubs++
			case k < 12:
				if nsubs > 0 {
					ops = append(ops, []string{"unsub", fmt.Sprint(r.Intn(nsubs))})
				}
			case k < 17:
				if nsubs > 0 {
					ops = append(ops, []string{"recv", fmt.Sprint(r.Intn(nsubs))})
				}
			case k < 18:
				ops = append(ops, []string{"ready"})
			default:
				ops = append(ops, []string{"buf"})
			}
		}
		if overflowCase && nsubs > 0 {
			// a consumer that never reads: overflow its channel, then drain it
			o.Stat("server.overflow_case", 1)
			victim := r.Intn(nsubs)
			// half of the time nobody reads at all: every registered subscriber overflows and stays registered, closed,
			// when a newcomer subscribes afterwards
			allStall := r.Intn(2) == 0
			for j := 0; j < 215; j++ {
				ops = append(ops, []string{"push", fmt.Sprintf("o%d", j)})
				if !allStall && r.Intn(40) == 0 && nsubs > 1 {
					ops = append(ops, []string{"recv", fmt.Sprint(r.Intn(nsubs))})
				}
			}
			if allStall {
				o.Stat("server.every_subscriber_overflowed_before_a_newcomer", 1)
				ops = append(ops, []string{"sub", fmt.Sprint(r.Intn(5))}, []string{"push", "late0"}, []string{"push", "late1"})
				for j := 0; j < 8; j++ {
					ops = append(ops, []string{"recv", fmt.Sprint(nsubs)})
				}
				nsubs++
			}
			for j := 0; j < 222; j++ {
				ops = append(ops, []string{"recv", fmt.Sprint(victim)})
			}
			ops = append(ops, []string{"push", "after"}, []string{"recv", fmt.Sprint(victim)}, []string{"buf"}, []string{"ready"})
		}
		runServerCase(o, buffered, size, ops)
	}
}

func replayServer(o *Out, lines []string) {
	var ops [][]string
	buffered, size, open := false, 0, false
	flush := func() {
		if open {
			runServerCase(o, buffered, size, ops)
		}
		ops, open = nil, false
	}
	for _, l := range lines {
		ws := strings.Fields(l)
		if len(ws) == 0 {
			continue
		}
		switch ws[0] {
		case "case":
			flush()
			open = true
			buffered = ws[3] == "1"
			fmt.Sscan(ws[4], &size)
		case "op":
			ops = append(ops, ws[1:])
		case "end":
			flush()
		}
	}
	flush()
}

// ---- serverconc: PushBlock concurrent with subscribe (C20, "every interleaving of PushBlock with concurrent
// subscribe"). The outcome the property allows is a single one per subscriber: what it receives is a gap-free run
// of the pushed sequence ending with the last block pushed. Which block the run starts with depends on the schedule.

func init() {
	suites["serverconc"] = suiteServerConc
	replaySuites["serverconc"] = func(o *Out, lines []string) {
		// the schedule is not replayable: a replay re-runs the same configuration a few times
		for _, l := range lines {
			ws := strings.Fields(l)
			if len(ws) >= 7 && ws[0] == "case" && ws[2] == "serverconc" {
				var k, pre, conc, size, burst int
				fmt.Sscan(ws[3], &k)
				fmt.Sscan(ws[4], &pre)
				fmt.Sscan(ws[5], &conc)
				fmt.Sscan(ws[6], &size)
				if len(ws) > 7 {
					fmt.Sscan(ws[7], &burst)
				}
				for i := 0; i < 20; i++ {
					runServerConc(o, k, pre, conc, size, burst, int64(i))
				}
			}
		}
	}
}

func runServerConc(o *Out, k, pre, conc, size, burst int, spin int64) {
	o.Case("serverconc", k, pre, conc, size, burst)
	s := blockstream.NewUnmanagedServer(blockstream.ServerOptionWithBuffer(size))
	ts := timestamppb.New(time.Unix(1600000000, 0))
	push := func(i int) {
		s.PushBlock(&pbbstream.Block{Id: fmt.Sprintf("b%d", i), Number: uint64(i + 1), ParentId: "p", Timestamp: ts})
	}
	for i := 0; i < pre; i++ {
		push(i)
	}
	total := pre + conc + 3
	subs := make([]*blockstream.VerifSub, k)
	start := make(chan struct{})
	done := make(chan struct{}, k+1)
	for j := 0; j < k; j++ {
		go func(j int) {
			<-start
			for y := int64(0); y < (spin*7+int64(j)*13)%40; y++ {
				time.Sleep(time.Microsecond)
			}
			subs[j] = s.VerifSubscribe(burst)
			done <- struct{}{}
		}(j)
	}
	go func() {
		<-start
		for i := pre; i < pre+conc; i++ {
			push(i)
			if i%4 == 0 {
				time.Sleep(time.Microsecond)
			}
		}
		done <- struct{}{}
	}()
	close(start)
	for i := 0; i < k+1; i++ {
		<-done
	}
	for i := pre + conc; i < total; i++ {
		push(i)
	}
	last := fmt.Sprintf("b%d", total-1)
	for j := 0; j < k; j++ {
		o.Op("sub %d", j)
		v := subs[j]
		if v == nil {
			o.Impl("sub %d nil", j)
			continue
		}
		var got []int
		closed := false
		for {
			b, open, empty := v.TryRecv()
			if empty {
				break
			}
			if !open {
				closed = true
				break
			}
			var n int
			fmt.Sscanf(b.Id, "b%d", &n)
			got = append(got, n)
		}
		gapAt := ""
		for i := 1; i < len(got); i++ {
			if got[i] != got[i-1]+1 {
				gapAt = fmt.Sprintf("b%d->b%d", got[i-1], got[i])
				break
			}
		}
		switch {
		case closed:
			o.Impl("sub %d closed", j)
		case gapAt != "":
			o.Impl("sub %d gap %s", j, gapAt)
		case len(got) == 0 || fmt.Sprintf("b%d", got[len(got)-1]) != last:
			o.Impl("sub %d incomplete", j)
		default:
			o.Impl("sub %d ok", j)
		}
	}
	o.End()
}

func suiteServerConc(o *Out, r *Rng, n int, tier string) {
	for i := 0; i < n; i++ {
		k := 2 + r.Intn(7)
		pre := 5 + r.Intn(20)
		conc := 20 + r.Intn(100)
		size := 10 + r.Intn(150)
		burst := r.Intn(12)
		runServerConc(o, k, pre, conc, size, burst, int64(r.Intn(1000)))
	}
}
