package main

import (
	"fmt"
	"strings"
	"time"

	"github.com/streamingfast/bstream/blockstream"
	pbbstream "github.com/streamingfast/bstream/pb/sf/bstream/v1"
	"google.golang.org/protobuf/types/known/timestamppb"
)

func init() {
	suites["server"] = suiteServer
	replaySuites["server"] = replayServer
}

func runServerCase(o *Out, buffered bool, size int, ops [][]string) {
	o.Case("server", b2i(buffered), size)
	var s *blockstream.Server
	if buffered {
		s = blockstream.NewUnmanagedServer(blockstream.ServerOptionWithBuffer(size))
	} else {
		s = blockstream.NewUnmanagedServer()
	}
	var subs []*blockstream.VerifSub
	ts := timestamppb.New(time.Unix(1600000000, 0))
	for _, ws := range ops {
		o.Op("%s", strings.Join(ws, " "))
		res := guarded(o, func() string {
			switch ws[0] {
			case "push":
				err := s.PushBlock(&pbbstream.Block{Id: ws[1], Number: 1, ParentId: "p", Timestamp: ts})
				if err != nil {
					return "err"
				}
				return "ok"
			case "sub":
				var n int64
				fmt.Sscan(ws[1], &n)
				var v *blockstream.VerifSub
				done := false
				defer func() {
					if !done {
						subs = append(subs, nil) // keep indices aligned when subscribe panics
					}
				}()
				v = s.VerifSubscribe(int(n))
				done = true
				subs = append(subs, v)
				if v == nil {
					return "nil"
				}
				q := 0
				_ = q
				return fmt.Sprintf("sub %d %d", v.Cap(), v.Len())
			case "unsub":
				var i int
				fmt.Sscan(ws[1], &i)
				if i < len(subs) && subs[i] != nil {
					s.VerifUnsubscribe(subs[i])
				}
				return "ok"
			case "recv":
				var i int
				fmt.Sscan(ws[1], &i)
				if i >= len(subs) || subs[i] == nil {
					return "nosub"
				}
				b, open, empty := subs[i].TryRecv()
				if empty {
					return "empty"
				}
				if !open {
					return "closed"
				}
				return "blk " + b.Id
			case "ready":
				return fmt.Sprint(s.Ready())
			case "buf":
				ids := s.VerifBufferIDs()
				if len(ids) == 0 {
					return "-"
				}
				return strings.Join(ids, ",")
			}
			return "bad-op"
		})
		o.Impl("%s", res)
	}
	o.End()
}

func suiteServer(o *Out, r *Rng, n int, tier string) {
	for i := 0; i < n; i++ {
		buffered := r.Intn(6) != 0
		size := []int{0, 1, 2, 3, 3, 5, 8}[r.Intn(7)]
		nops := 5 + r.Intn(40)
		var ops [][]string
		nsubs := 0
		next := 0
		overflowCase := r.Intn(6) == 0
		for j := 0; j < nops; j++ {
			k := r.Intn(20)
			switch {
			case k < 8:
				id := fmt.Sprintf("b%d", next)
				if r.Intn(5) == 0 && next > 0 { // repeated id
					id = fmt.Sprintf("b%d", r.Intn(next))
					o.Stat("server.push.repeated_id", 1)
				} else {
					next++
				}
				ops = append(ops, []string{"push", id})
			case k < 11:
				var burst int64
				switch r.Intn(8) {
				case 0:
					burst = -1
					o.Stat("server.sub.negative_burst", 1)
				case 1:
					burst = -9223372036854775808
					o.Stat("server.sub.negative_burst", 1)
				case 2:
					burst = 9223372036854775807
				case 3:
					burst = 0
				default:
					burst = int64(r.Intn(10))
				}
				ops = append(ops, []string{"sub", fmt.Sprint(burst)})
				nsubs++
			case k < 12:
				if nsubs > 0 {
					ops = append(ops, []string{"unsub", fmt.Sprint(r.Intn(nsubs))})
				}
			case k < 17:
				if nsubs > 0 {
					ops = append(ops, []string{"recv", fmt.Sprint(r.Intn(nsubs))})
				}
			case k < 18:
				ops = append(ops, []string{"ready"})
			default:
				ops = append(ops, []string{"buf"})
			}
		}
		if overflowCase && nsubs > 0 {
			// a consumer that never reads: overflow its channel, then drain it
			o.Stat("server.overflow_case", 1)
			victim := r.Intn(nsubs)
			for j := 0; j < 215; j++ {
				ops = append(ops, []string{"push", fmt.Sprintf("o%d", j)})
				if r.Intn(40) == 0 && nsubs > 1 {
					ops = append(ops, []string{"recv", fmt.Sprint(r.Intn(nsubs))})
				}
			}
			for j := 0; j < 222; j++ {
				ops = append(ops, []string{"recv", fmt.Sprint(victim)})
			}
			ops = append(ops, []string{"push", "after"}, []string{"recv", fmt.Sprint(victim)}, []string{"buf"}, []string{"ready"})
		}
		runServerCase(o, buffered, size, ops)
	}
}

func replayServer(o *Out, lines []string) {
	var ops [][]string
	buffered, size, open := false, 0, false
	flush := func() {
		if open {
			runServerCase(o, buffered, size, ops)
		}
		ops, open = nil, false
	}
	for _, l := range lines {
		ws := strings.Fields(l)
		if len(ws) == 0 {
			continue
		}
		switch ws[0] {
		case "case":
			flush()
			open = true
			buffered = ws[3] == "1"
			fmt.Sscan(ws[4], &size)
		case "op":
			ops = append(ops, ws[1:])
		case "end":
			flush()
		}
	}
	flush()
}
