package main

import (
	"errors"
	"fmt"
	"sort"
	"strings"
	"sync"
	"time"

	"github.com/streamingfast/bstream"
	pbbstream "github.com/streamingfast/bstream/pb/sf/bstream/v1"
)

// suite indexsrc (C15, file-source half): a FileSource with a block index provider given as a table
// (bundle base -> nil | empty | block numbers; no entry = BlocksInRange fails: the index has ended).

func init() {
	suites["indexsrc"] = suiteIndexSrc
	replaySuites["indexsrc"] = replayIndexSrc
}

type tableProv struct {
	m map[uint64][]uint64 // nil value = nil result; empty non-nil = empty result
	has map[uint64]bool
}

func (p *tableProv) BlocksInRange(base, size uint64) ([]uint64, error) {
	if !p.has[base] {
		return nil, errors.New("no index for this range")
	}
	v := p.m[base]
	if v == nil {
		return nil, nil
	}
	return append([]uint64{}, v...), nil
}

type ixCase struct {
	start, stop, bs uint64
	threads         int
	bundles         []fsBundle
	bases           []uint64
	table           map[uint64][]uint64
	has             map[uint64]bool
	wl              []uint64
}

func runIndexSrcCase(o *Out, c ixCase) {
	o.Case("indexsrc", c.start, c.stop, c.bs)
	for _, bu := range c.bundles {
		bundleLine(o, bu)
	}
	for _, b := range c.bases {
		v := c.table[b]
		switch {
		case v == nil:
			o.Line("prov %d nil", b)
		case len(v) == 0:
			o.Line("prov %d empty", b)
		default:
			var parts []string
			for _, n := range v {
				parts = append(parts, fmt.Sprint(n))
			}
			o.Line("prov %d %s", b, strings.Join(parts, ","))
		}
	}
	if len(c.wl) == 0 {
		o.Line("wl -")
	} else {
		var parts []string
		for _, n := range c.wl {
			parts = append(parts, fmt.Sprint(n))
		}
		o.Line("wl %s", strings.Join(parts, ","))
	}
	o.Op("run")
	w := &missWatch{miss: map[string]int{}}
	store := mergedStore(c.bundles, w)
	var mu sync.Mutex
	h := bstream.HandlerFunc(func(blk *pbbstream.Block, obj interface{}) error {
		mu.Lock()
		defer mu.Unlock()
		w.touch()
		pp := "ppBAD"
		if wo, ok := obj.(bstream.ObjectWrapper); ok {
			if s, ok := wo.WrappedObject().(string); ok && s == "pp:"+blk.Id {
				pp = "ppok"
			}
		}
		o.Impl("blk %s %d %s", tok(blk.Id), blk.Number, pp)
		return nil
	})
	pre := func(blk *pbbstream.Block) (interface{}, error) { return "pp:" + blk.Id, nil }
	prov := &tableProv{m: c.table, has: c.has}
	opts := []bstream.FileSourceOption{bstream.FileSourceWithBundleSize(c.bs), bstream.FileSourceWithRetryDelay(2 * time.Millisecond),
		bstream.FileSourceWithConcurrentPreprocess(pre, c.threads), bstream.FileSourceWithBlockIndexProvider(prov)}
	if c.stop != 0 {
		opts = append(opts, bstream.FileSourceWithStopBlock(c.stop))
	}
	if len(c.wl) > 0 {
		opts = append(opts, bstream.FileSourceWithWhitelistedBlocks(c.wl...))
	}
	fs := bstream.NewFileSource(store, c.start, h, nopLog, opts...)
	res := runSource(fs, w)
	mu.Lock()
	o.Impl("fsend %s", res)
	mu.Unlock()
	o.End()
	if res == "hang" {
		o.Flush()
	}
}

func suiteIndexSrc(o *Out, r *Rng, n int, tier string) {
	for i := 0; i < n; i++ {
		bs := uint64([]int{2, 3, 5, 10}[r.Intn(4)])
		first := uint64(r.Intn(12))
		chain := genChain(r, first, 6+r.Intn(30), r.Intn(3) == 0)
		bundles := layoutBundles(chain, bs)
		have := map[uint64]bool{}
		for _, b := range bundles {
			have[b.base] = true
		}
		lastBase := bundles[len(bundles)-1].base
		for b := bundles[0].base; b <= lastBase; b += bs {
			if !have[b] {
				bundles = append(bundles, fsBundle{base: b})
			}
		}
		sort.Slice(bundles, func(i, j int) bool { return bundles[i].base < bundles[j].base })
		c := ixCase{bs: bs, threads: 1 + r.Intn(4), bundles: bundles, table: map[uint64][]uint64{}, has: map[uint64]bool{}}
		lastNum := chain[len(chain)-1].Num
		c.start = first + uint64(r.Intn(int(lastNum-first)+1))
		if r.Intn(5) != 0 {
			c.stop = c.start + uint64(r.Intn(int(lastNum-c.start)+3))
		}
		// the index covers the bundles from the start bundle up to some point (sometimes beyond the last file, sometimes
		// with a gap = the index ends there)
		startBase := c.start - c.start%bs
		nb := int((lastBase-startBase)/bs) + 1
		covered := r.Intn(nb + 3)
		for k := 0; k < covered; k++ {
			base := startBase + uint64(k)*bs
			if r.Intn(12) == 0 {
				o.Stat("indexsrc.gap_in_index", 1)
				break
			}
			c.has[base] = true
			c.bases = append(c.bases, base)
			switch r.Intn(10) {
			case 0, 1, 2:
				c.table[base] = nil
				o.Stat("indexsrc.range.nil", 1)
			case 3:
				c.table[base] = []uint64{}
				o.Stat("indexsrc.range.empty", 1)
			default:
				var v []uint64
				for x := base; x < base+bs; x++ {
					if r.Intn(3) == 0 {
						v = append(v, x) // may be a skipped number: the next existing block is to be delivered
					}
				}
				if r.Intn(15) == 0 {
					v = append(v, base+bs+uint64(r.Intn(3))) // a number outside the range
					o.Stat("indexsrc.range.out_of_range_number", 1)
				}
				if v == nil {
					v = []uint64{}
				}
				c.table[base] = v
				o.Stat("indexsrc.range.matches", 1)
			}
		}
		for k := r.Intn(3); k > 0; k-- {
			c.wl = append(c.wl, c.start+uint64(r.Intn(int(lastNum-c.start)+2)))
		}
		o.Stat("indexsrc.cases", 1)
		runIndexSrcCase(o, c)
	}
}

func replayIndexSrc(o *Out, lines []string) {
	var c *ixCase
	flush := func() {
		if c != nil {
			runIndexSrcCase(o, *c)
		}
		c = nil
	}
	for _, l := range lines {
		ws := strings.Fields(l)
		if len(ws) == 0 {
			continue
		}
		switch ws[0] {
		case "case":
			flush()
			c = &ixCase{threads: 2, table: map[uint64][]uint64{}, has: map[uint64]bool{}}
			fmt.Sscan(ws[3], &c.start)
			fmt.Sscan(ws[4], &c.stop)
			fmt.Sscan(ws[5], &c.bs)
		case "bundle":
			if c == nil {
				continue
			}
			c.bundles = append(c.bundles, parseBundleLine(ws))
		case "prov":
			if c == nil {
				continue
			}
			var base uint64
			fmt.Sscan(ws[1], &base)
			c.has[base] = true
			c.bases = append(c.bases, base)
			switch ws[2] {
			case "nil":
				c.table[base] = nil
			case "empty":
				c.table[base] = []uint64{}
			default:
				var v []uint64
				for _, t := range strings.Split(ws[2], ",") {
					var x uint64
					fmt.Sscan(t, &x)
					v = append(v, x)
				}
				c.table[base] = v
			}
		case "wl":
			if c == nil || ws[1] == "-" {
				continue
			}
			for _, t := range strings.Split(ws[1], ",") {
				var x uint64
				fmt.Sscan(t, &x)
				c.wl = append(c.wl, x)
			}
		}
	}
	flush()
}
