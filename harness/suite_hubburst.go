package main

import (
	"fmt"
	"sort"
	"strings"

	"github.com/streamingfast/bstream"
	"github.com/streamingfast/bstream/forkable"
	pbbstream "github.com/streamingfast/bstream/pb/sf/bstream/v1"
)

func init() {
	suites["hubburst"] = suiteHubBurst
	replaySuites["hubburst"] = replayHubBurst
}

type curRec struct {
	idx                int
	step               string
	blk, head, lib     string // id:num tokens
}

type hbOp struct {
	kind  string // blk | fromnum | forks | fromcursor | through | snapshot
	blk   fkOp
	n     uint64
	cur   curRec
}

func bevLine(pb *bstream.PreprocessedBlock) string {
	fo, ok := pb.Obj.(*forkable.ForkableObject)
	if !ok {
		return fmt.Sprintf("b raw %s %d", tok(pb.Block.Id), pb.Block.Number)
	}
	c := fo.Cursor()
	j := "-"
	if jb := fo.ReorgJunctionBlock(); jb != nil {
		j = refTok(jb)
	}
	step := stepName(fo.Step())
	if c.Step != fo.Step() || c.Block.ID() != pb.Block.Id || c.Block.Num() != pb.Block.Number {
		step = "CURSORMISMATCH-" + step
	}
	return fmt.Sprintf("b %s %s %d %s %s %s", step, tok(pb.Block.Id), pb.Block.Number, refTok(c.HeadBlock), refTok(c.LIB), j)
}

func parseRefTok(s string) bstream.BlockRef {
	p := strings.Split(s, ":")
	var n uint64
	fmt.Sscan(p[1], &n)
	id := p[0]
	if id == "-" {
		id = ""
	}
	return bstream.NewBlockRef(id, n)
}

func stepOf(name string) bstream.StepType {
	switch name {
	case "new":
		return bstream.StepNew
	case "undo":
		return bstream.StepUndo
	case "irr":
		return bstream.StepIrreversible
	case "newirr":
		return bstream.StepNewIrreversible
	case "stalled":
		return bstream.StepStalled
	}
	return 0
}

func (c curRec) cursor() *bstream.Cursor {
	return &bstream.Cursor{Step: stepOf(c.step), Block: parseRefTok(c.blk), HeadBlock: parseRefTok(c.head), LIB: parseRefTok(c.lib)}
}

// runHubBurstCase feeds blocks to a real Forkable and answers burst queries on it.
// gen != nil lets the generator insert queries that depend on the cursors delivered so far.
func runHubBurstCase(o *Out, c fkCfg, ops []hbOp, gen func(evs []curRec, headNum uint64) []hbOp) {
	old := bstream.GetProtocolFirstStreamableBlock
	bstream.GetProtocolFirstStreamableBlock = c.fsb
	defer func() { bstream.GetProtocolFirstStreamableBlock = old }()
	o.Case("hubburst", append(c.hdr(), "noq")...)
	var evs []curRec
	evIdx := 0
	r := &fkRunner{o: o, failAt: -1, seenN: map[uint64]bool{}, seenI: map[string]bool{}}
	h := bstream.HandlerFunc(func(blk *pbbstream.Block, obj interface{}) error {
		line := evLine(blk, obj)
		o.Impl("%s", line)
		w := strings.Fields(line) // ev step id num head lib junction idx count
		evs = append(evs, curRec{idx: evIdx, step: strings.TrimPrefix(w[1], "CURSORMISMATCH-"), blk: w[2] + ":" + w[3], head: w[4], lib: w[5]})
		evIdx++
		return nil
	})
	r.p = forkable.New(h, c.options()...)
	burst := func(call func(cb func([]*bstream.PreprocessedBlock)) error) {
		res := safely(func() string {
			var got []*bstream.PreprocessedBlock
			err := call(func(b []*bstream.PreprocessedBlock) { got = b })
			if err != nil {
				return "bret err"
			}
			for _, pb := range got {
				o.Impl("%s", bevLine(pb))
			}
			return "bret ok"
		})
		o.Impl("%s", res)
	}
	exec := func(op hbOp) {
		switch op.kind {
		case "blk":
			r.feed(op.blk, false)
		case "fromnum":
			o.Op("fromnum %d", op.n)
			burst(func(cb func([]*bstream.PreprocessedBlock)) error { return r.p.CallWithBlocksFromNum(op.n, cb, false) })
		case "forks":
			o.Op("forks %d", op.n)
			res := safely(func() string {
				var got []*bstream.PreprocessedBlock
				err := r.p.CallWithBlocksFromNum(op.n, func(b []*bstream.PreprocessedBlock) { got = b }, true)
				if err != nil {
					return "bret err"
				}
				// canonicalise: ascending height (as delivered), ties by id
				sort.SliceStable(got, func(i, j int) bool {
					if got[i].Block.Number != got[j].Block.Number {
						return false // keep the implementation's height order: a violation of it must stay visible
					}
					return got[i].Block.Id < got[j].Block.Id
				})
				var parts []string
				for _, pb := range got {
					parts = append(parts, fmt.Sprintf("%s:%d", tok(pb.Block.Id), pb.Block.Number))
				}
				s := "-"
				if len(parts) > 0 {
					s = strings.Join(parts, ",")
				}
				o.Impl("bf %s", s)
				return "bret ok"
			})
			o.Impl("%s", res)
		case "fromcursor":
			o.Op("fromcursor %d %s %s %s %s", op.cur.idx, op.cur.step, op.cur.blk, op.cur.head, op.cur.lib)
			burst(func(cb func([]*bstream.PreprocessedBlock)) error { return r.p.CallWithBlocksFromCursor(op.cur.cursor(), cb) })
		case "through":
			o.Op("through %d %d %s %s %s %s", op.n, op.cur.idx, op.cur.step, op.cur.blk, op.cur.head, op.cur.lib)
			cur := op.cur.cursor()
			// ForkableHub.SourceThroughCursor: a cursor that has already passed is ignored
			if cur.Block.Num() < op.n {
				burst(func(cb func([]*bstream.PreprocessedBlock)) error { return r.p.CallWithBlocksFromNum(op.n, cb, false) })
			} else {
				burst(func(cb func([]*bstream.PreprocessedBlock)) error { return r.p.CallWithBlocksThroughCursor(op.n, cur, cb) })
			}
		case "snapshot":
			o.Op("snapshot")
			o.Impl("%s", safely(func() string {
				low := r.p.LowestBlockNum()
				var got []*bstream.PreprocessedBlock
				err := r.p.CallWithBlocksFromNum(low, func(b []*bstream.PreprocessedBlock) { got = b }, false)
				if err != nil {
					return "canon none"
				}
				var parts []string
				for _, pb := range got {
					parts = append(parts, fmt.Sprintf("%s:%d", tok(pb.Block.Id), pb.Block.Number))
				}
				return "canon " + strings.Join(parts, ",")
			}))
			o.Impl("lowest %s", safely(func() string { return fmt.Sprint(r.p.LowestBlockNum()) }))
		}
	}
	for _, op := range ops {
		exec(op)
		if gen != nil && op.kind == "blk" {
			for _, q := range gen(evs, r.p.HeadNum()) {
				exec(q)
			}
		}
	}
	o.End()
}

func suiteHubBurst(o *Out, r *Rng, n int, tier string) {
	for i := 0; i < n; i++ {
		c, fops, t := genForkableCase(r, o)
		c.filter = 51 // the hub's forkable delivers all steps
		// hub-like configuration most of the time
		if r.Intn(3) > 0 {
			c.root, c.hold, c.fsb = "none", true, 0
			hasRoot := false
			for _, op := range fops {
				if op.b.ID == t.Root.ID {
					hasRoot = true
				}
			}
			if !hasRoot {
				fops = append([]fkOp{{b: t.Root, fail: -1}}, fops...)
			}
		}
		var ops []hbOp
		for _, f := range fops {
			f.fail = -1
			ops = append(ops, hbOp{kind: "blk", blk: f})
		}
		qr := r.Fork()
		gen := func(evs []curRec, headNum uint64) []hbOp {
			var qs []hbOp
			if qr.Intn(3) != 0 {
				return nil
			}
			qs = append(qs, hbOp{kind: "snapshot"})
			// requests by number around the retained window
			lo := uint64(0)
			if headNum > 8 {
				lo = headNum - 8
			}
			for k := 0; k < 2; k++ {
				qs = append(qs, hbOp{kind: "fromnum", n: lo + uint64(qr.Intn(int(headNum-lo)+3))})
			}
			if qr.Intn(3) == 0 {
				qs = append(qs, hbOp{kind: "forks", n: lo + uint64(qr.Intn(int(headNum-lo)+3))})
			}
			// resume from earlier cursors
			var cand []curRec
			for _, e := range evs {
				if e.step == "new" || e.step == "undo" || (e.step == "irr" && qr.Intn(3) == 0) {
					cand = append(cand, e)
				}
			}
			for k := 0; k < 3 && len(cand) > 0; k++ {
				cr := cand[qr.Intn(len(cand))]
				if qr.Intn(4) > 0 && len(cand) > 4 { // bias to recent cursors
					cr = cand[len(cand)-1-qr.Intn(4)]
				}
				o.Stat("hubburst.cursor."+cr.step, 1)
				qs = append(qs, hbOp{kind: "fromcursor", cur: cr})
				if qr.Intn(3) == 0 {
					bn := parseRefTok(cr.blk).Num()
					st := lo + uint64(qr.Intn(int(headNum-lo)+2))
					if qr.Bool() && bn > 0 {
						st = bn - uint64(qr.Intn(int(min(int(bn), 4))+1))
					}
					qs = append(qs, hbOp{kind: "through", n: st, cur: cr})
				}
			}
			return qs
		}
		runHubBurstCase(o, c, ops, gen)
	}
}

func replayHubBurst(o *Out, lines []string) {
	var c fkCfg
	var ops []hbOp
	open := false
	flush := func() {
		if open {
			runHubBurstCase(o, c, ops, nil)
		}
		ops, open = nil, false
	}
	for _, l := range lines {
		ws := strings.Fields(l)
		if len(ws) == 0 {
			continue
		}
		switch ws[0] {
		case "case":
			flush()
			c, _ = parseFkHeader(ws)
			open = true
		case "op":
			switch ws[1] {
			case "blk":
				ops = append(ops, hbOp{kind: "blk", blk: parseBlkOp(ws)})
			case "fromnum", "forks":
				var n uint64
				fmt.Sscan(ws[2], &n)
				ops = append(ops, hbOp{kind: ws[1], n: n})
			case "fromcursor":
				var idx int
				fmt.Sscan(ws[2], &idx)
				ops = append(ops, hbOp{kind: "fromcursor", cur: curRec{idx: idx, step: ws[3], blk: ws[4], head: ws[5], lib: ws[6]}})
			case "through":
				var n uint64
				var idx int
				fmt.Sscan(ws[2], &n)
				fmt.Sscan(ws[3], &idx)
				ops = append(ops, hbOp{kind: "through", n: n, cur: curRec{idx: idx, step: ws[4], blk: ws[5], head: ws[6], lib: ws[7]}})
			case "snapshot":
				ops = append(ops, hbOp{kind: "snapshot"})
			}
		case "end":
			flush()
		}
	}
	flush()
}
