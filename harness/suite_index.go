package main

import (
	"fmt"
	"sort"
	"strconv"
	"strings"

	"github.com/RoaringBitmap/roaring/roaring64"
	"github.com/streamingfast/bstream"
	"github.com/streamingfast/bstream/transform"
	"github.com/streamingfast/dstore"
)

func init() {
	suites["index"] = suiteIndex
	replaySuites["index"] = replayIndex
}

type idxCase struct {
	size         uint64
	fsb          uint64
	definedStart int64 // -1 none
	sizes        []uint64
	ops          [][]string
}

func natJoin(v []uint64) string {
	if len(v) == 0 {
		return "-"
	}
	s := make([]string, len(v))
	for i, x := range v {
		s[i] = fmt.Sprint(x)
	}
	return strings.Join(s, ",")
}

func runIndexCase(o *Out, c idxCase) {
	old := bstream.GetProtocolFirstStreamableBlock
	bstream.GetProtocolFirstStreamableBlock = c.fsb
	defer func() { bstream.GetProtocolFirstStreamableBlock = old }()
	ds := "-"
	if c.definedStart >= 0 {
		ds = fmt.Sprint(c.definedStart)
	}
	o.Case("index", c.size, c.fsb, ds, natJoin(c.sizes))
	store := dstore.NewMockStore(nil)
	var opts []transform.Option
	if c.definedStart >= 0 {
		opts = append(opts, transform.WithDefinedStartBlock(uint64(c.definedStart)))
	}
	ix := transform.NewBlockIndexer(store, c.size, "t", opts...)
	var provs []*transform.GenericBlockIndexProvider
	for _, ws := range c.ops {
		o.Op("%s", strings.Join(ws, " "))
		res := safely(func() string {
			switch ws[0] {
			case "add":
				var n uint64
				fmt.Sscan(ws[1], &n)
				var keys []string
				if ws[2] != "-" {
					keys = strings.Split(ws[2], ",")
				}
				ix.Add(keys, n)
				return "ok"
			case "files":
				var names []string
				store.Walk(nil, "", func(fn string) error { names = append(names, fn); return nil })
				var out []string
				for _, fn := range names { // 0000000010.10.t.idx
					p := strings.Split(fn, ".")
					low, _ := strconv.ParseUint(p[0], 10, 64) // not Sscan: leading zeros would mean octal
					out = append(out, fmt.Sprintf("%d.%s", low, p[1]))
				}
				sort.Slice(out, func(i, j int) bool {
					a, _ := strconv.ParseUint(strings.Split(out[i], ".")[0], 10, 64)
					b, _ := strconv.ParseUint(strings.Split(out[j], ".")[0], 10, 64)
					return a < b
				})
				if len(out) == 0 {
					return "files -"
				}
				return "files " + strings.Join(out, ",")
			case "prov":
				var keys []string
				if ws[2] != "-" {
					keys = strings.Split(ws[2], ",")
				}
				kind := ws[1]
				f := func(g transform.BitmapGetter) []uint64 {
					acc := roaring64.NewBitmap()
					for _, k := range keys {
						var bm *roaring64.Bitmap
						if kind == "exact" {
							bm = g.Get(k)
						} else {
							bm = g.GetByPrefixAndSuffix(k, "")
						}
						if bm != nil {
							acc.Or(bm)
						}
					}
					return acc.ToArray()
				}
				provs = append(provs, transform.NewGenericBlockIndexProvider(store, "t", c.sizes, f))
				return "ok"
			case "query":
				var i int
				var b, bu uint64
				fmt.Sscan(ws[1], &i)
				fmt.Sscan(ws[2], &b)
				fmt.Sscan(ws[3], &bu)
				r, err := provs[i].BlocksInRange(b, bu)
				if err != nil {
					return "res err"
				}
				return "res " + natJoin(r)
			}
			return "bad-op"
		})
		o.Impl("%s", res)
	}
	o.End()
}

func suiteIndex(o *Out, r *Rng, n int, tier string) {
	allKeys := []string{"a", "b", "ab", "abc", "x", "xy", "k1", "k2"}
	for i := 0; i < n; i++ {
		bundle := uint64([]int{1, 2, 5, 10}[r.Intn(4)])
		mult := uint64([]int{1, 1, 2, 3, 10}[r.Intn(5)])
		c := idxCase{size: bundle * mult, definedStart: -1}
		c.fsb = uint64([]int{0, 0, 1, 2, 3}[r.Intn(5)])
		c.sizes = []uint64{c.size}
		switch r.Intn(6) {
		case 0:
			c.sizes = []uint64{c.size * 10, c.size, bundle}
		case 1:
			c.sizes = []uint64{bundle, c.size}
		case 2:
			if bundle > 1 { // a size smaller than the bundle listed *before* the real one: ignored, not the end of the list
				c.sizes = []uint64{bundle / 2, c.size}
				o.Stat("index.too_small_size_listed_first", 1)
			}
		case 3:
			if bundle > 1 {
				c.sizes = []uint64{c.size * 10, 1, c.size}
				o.Stat("index.too_small_size_listed_first", 1)
			}
		}
		// blocks: ascending, starting on an index boundary (or at fsb / defined start), with skipped numbers
		start := c.size * uint64(r.Intn(3))
		switch r.Intn(6) {
		case 0:
			start = c.fsb
		case 1:
			c.definedStart = int64(c.size * uint64(r.Intn(3)))
			start = uint64(c.definedStart) + uint64(r.Intn(int(c.size)))
		case 2:
			start = start + uint64(r.Intn(3)) // possibly off boundary: dropped until a boundary is met
		}
		num := start
		nblocks := 5 + r.Intn(40)
		for j := 0; j < nblocks; j++ {
			var ks []string
			for _, k := range allKeys {
				if r.Intn(4) == 0 {
					ks = append(ks, k)
				}
			}
			kss := "-"
			if len(ks) > 0 {
				kss = strings.Join(ks, ",")
			}
			c.ops = append(c.ops, []string{"add", fmt.Sprint(num), kss})
			num += 1
			if r.Intn(6) == 0 {
				num += uint64(r.Intn(3))
			}
			if r.Intn(30) == 0 {
				num += c.size * 2 // jump over a whole index range
			}
		}
		c.ops = append(c.ops, []string{"files"})
		np := 1 + r.Intn(3)
		for p := 0; p < np; p++ {
			kind := []string{"exact", "exact", "prefix"}[r.Intn(3)]
			var ks []string
			for _, k := range allKeys {
				if r.Intn(3) == 0 {
					ks = append(ks, k)
				}
			}
			kss := "-"
			if len(ks) > 0 {
				kss = strings.Join(ks, ",")
			}
			c.ops = append(c.ops, []string{"prov", kind, kss})
			// queries at every bundle base over the fed range (and a little beyond), sometimes off boundary
			hi := num + bundle*2
			for b := lowB(start, bundle); b <= hi; b += bundle {
				if r.Intn(3) == 0 {
					continue
				}
				base := b
				if r.Intn(25) == 0 {
					base++
				}
				c.ops = append(c.ops, []string{"query", fmt.Sprint(p), fmt.Sprint(base), fmt.Sprint(bundle)})
			}
			o.Stat("index.providers", 1)
		}
		if mult > 1 {
			o.Stat("index.index_larger_than_bundle", 1)
		}
		runIndexCase(o, c)
	}
}

func lowB(i, m uint64) uint64 { return i - i%m }

func replayIndex(o *Out, lines []string) {
	var c idxCase
	open := false
	flush := func() {
		if open {
			runIndexCase(o, c)
		}
		c, open = idxCase{}, false
	}
	for _, l := range lines {
		ws := strings.Fields(l)
		if len(ws) == 0 {
			continue
		}
		switch ws[0] {
		case "case":
			flush()
			open = true
			fmt.Sscan(ws[3], &c.size)
			fmt.Sscan(ws[4], &c.fsb)
			c.definedStart = -1
			if ws[5] != "-" {
				fmt.Sscan(ws[5], &c.definedStart)
			}
			for _, s := range strings.Split(ws[6], ",") {
				var v uint64
				fmt.Sscan(s, &v)
				c.sizes = append(c.sizes, v)
			}
		case "op":
			c.ops = append(c.ops, ws[1:])
		case "end":
			flush()
		}
	}
	flush()
}
