package main

import (
	"bytes"
	"context"
	"errors"
	"fmt"
	"io"
	"regexp"
	"sort"
	"strings"
	"sync"
	"time"

	"github.com/streamingfast/bstream"
	"github.com/streamingfast/bstream/forkable"
	pbbstream "github.com/streamingfast/bstream/pb/sf/bstream/v1"
	"github.com/streamingfast/dstore"
	"go.uber.org/zap"
	"google.golang.org/protobuf/types/known/anypb"
)

func init() {
	suites["filesrc"] = suiteFileSrc
	replaySuites["filesrc"] = replayFileSrc
	suites["resolver"] = suiteResolver
	replaySuites["resolver"] = replayResolver
}

var nopLog = zap.NewNop()

type fsBundle struct {
	base   uint64
	blocks []TBlock
}

func blk4(b TBlock) string { return fmt.Sprintf("%s:%s:%d:%d", tok(b.ID), tok(b.Parent), b.Num, b.Lib) }

func bundleLine(o *Out, bu fsBundle) {
	var parts []string
	for _, b := range bu.blocks {
		parts = append(parts, blk4(b))
	}
	s := "-"
	if len(parts) > 0 {
		s = strings.Join(parts, ",")
	}
	o.Line("bundle %d %s", bu.base, s)
}

func filePB(b TBlock) *pbbstream.Block {
	pb := b.pb()
	pb.Payload = &anypb.Any{TypeUrl: "type.googleapis.com/sf.test.Block", Value: []byte(b.ID)}
	if b.Num > 0 {
		pb.ParentNum = b.Num - 1
	}
	return pb
}

func bundleBytes(blocks []TBlock) []byte {
	var buf bytes.Buffer
	w, _ := bstream.NewDBinBlockWriter(&buf)
	for _, b := range blocks {
		w.Write(filePB(b))
	}
	if len(blocks) == 0 { // an empty but valid file: header only
		w2, _ := bstream.NewDBinBlockWriter(&buf)
		_ = w2
		return []byte("dbin\x01\x00\x01t")
	}
	return buf.Bytes()
}

// mergedStore builds a MockStore holding the bundles and counts FileExists calls on missing files.
type missWatch struct {
	sync.Mutex
	miss  map[string]int
	fire  func(name string)
	fired bool
	last  time.Time // last handler call: the source is only declared "waiting" once delivery is quiescent
	// pending (optional): deliveries the handler is still owed before the source can be waiting for `base` — on a
	// loaded machine the launcher polls for the missing file long before the first handler call
	pending func(base string) bool
	opened  int // merged files handed to the source …
	eofs    int // … and read to their end
}

// eofReader tells the watcher when a merged file has been read to its end
type eofReader struct {
	r    io.Reader
	w    *missWatch
	done bool
}

func (e *eofReader) Read(p []byte) (int, error) {
	n, err := e.r.Read(p)
	if err == io.EOF && !e.done {
		e.done = true
		e.w.Lock()
		e.w.eofs++
		e.w.last = time.Now()
		e.w.Unlock()
	}
	return n, err
}
func (e *eofReader) Close() error { return nil }

func (w *missWatch) touch() {
	w.Lock()
	w.last = time.Now()
	w.Unlock()
}

func mergedStore(bundles []fsBundle, w *missWatch) *dstore.MockStore {
	st := dstore.NewMockStore(nil)
	names := map[string]bool{}
	content := map[string][]byte{}
	for _, bu := range bundles {
		name := fmt.Sprintf("%010d", bu.base)
		content[name] = bundleBytes(bu.blocks)
		st.SetFile(name, content[name])
		names[name] = true
	}
	if w != nil {
		st.OpenObjectFunc = func(ctx context.Context, name string) (io.ReadCloser, error) {
			c, ok := content[name]
			if !ok {
				return nil, dstore.ErrNotFound
			}
			w.Lock()
			w.opened++
			w.Unlock()
			return &eofReader{r: bytes.NewReader(c), w: w}, nil
		}
	}
	st.FileExistsFunc = func(ctx context.Context, base string) (bool, error) {
		if names[base] {
			return true, nil
		}
		if w != nil {
			w.Lock()
			w.miss[base]++
			n := w.miss[base]
			w.Unlock()
			if n >= 2 && w.fire != nil {
				w.Lock()
				already := w.fired
				w.fired = true
				w.Unlock()
				if !already {
					go func() { // the launcher runs ahead of delivery: wait until nothing was delivered for a while
						began := time.Now()
						for {
							time.Sleep(5 * time.Millisecond)
							w.Lock()
							quiet := time.Since(w.last) > 40*time.Millisecond
							if w.opened != w.eofs && time.Since(began) < 5*time.Second {
								quiet = false // a queued file has not been read to its end yet
							}
							w.Unlock()
							if quiet && w.pending != nil && w.pending(base) && time.Since(began) < 5*time.Second {
								continue // blocks of files already queued have not reached the handler yet
							}
							if quiet {
								w.fire(base)
								return
							}
						}
					}()
				}
			}
		}
		return false, nil
	}
	return st
}

var errWaiting = errors.New("verif: source is waiting for a file that does not exist")
var nonSeqRe = regexp.MustCompile(`\\"#\d+ \(([^)]*)\)\\" has previousID|"#\d+ \(([^)]*)\)" has previousID`)

func classifyFS(err error, waitingBase string) string {
	switch {
	case err == nil:
		return "nil"
	case errors.Is(err, bstream.ErrStopBlockReached):
		return "stop"
	case errors.Is(err, errWaiting):
		var b uint64
		fmt.Sscanf(strings.TrimLeft(waitingBase, "0")+"", "%d", &b)
		return fmt.Sprintf("waiting %d", b)
	case strings.Contains(err.Error(), "injected handler failure"):
		return "handlererr"
	case strings.Contains(err.Error(), "non-sequential"):
		m := nonSeqRe.FindStringSubmatch(err.Error())
		id := "?"
		if m != nil {
			id = m[1] + m[2]
		}
		return "nonseq " + tok(id)
	case errors.Is(err, bstream.ErrResolveCursor):
		return "resolveerr"
	case strings.Contains(err.Error(), "downloading one-block-file"):
		return "downloaderr"
	case strings.Contains(err.Error(), "not implemented"):
		return "notimpl"
	}
	return "other:" + strings.ReplaceAll(err.Error(), " ", "_")
}

// runSource runs src until Terminated (watchdog 20 s) and returns its error class.
func runSource(src bstream.Source, w *missWatch) string {
	var waitBase string
	if w != nil {
		w.fire = func(name string) {
			waitBase = name
			src.Shutdown(errWaiting)
		}
	}
	go src.Run()
	select {
	case <-src.Terminated():
	case <-time.After(20 * time.Second):
		fsHangs++
		return "hang"
	}
	return classifyFS(src.Err(), waitBase)
}

type fsCase struct {
	start, stop, bs uint64
	threads         int
	failAt          int
	bundles         []fsBundle
	delays          bool
}

// fsHangs counts sources that did not end within the watchdog: after five of them the remaining cases of the run are
// skipped (each costs 20 s; the hangs already recorded are reported with their replays)
var fsHangs int

func runFileSrcCase(o *Out, c fsCase) {
	if fsHangs >= 5 {
		return
	}
	fa := "-"
	if c.failAt >= 0 {
		fa = fmt.Sprint(c.failAt)
	}
	o.Case("filesrc", c.start, c.stop, c.bs, c.threads, fa)
	for _, bu := range c.bundles {
		bundleLine(o, bu)
	}
	o.Op("run")
	w := &missWatch{miss: map[string]int{}}
	store := mergedStore(c.bundles, w)
	calls := 0
	var mu sync.Mutex
	w.pending = func(base string) bool {
		var missing uint64
		fmt.Sscan(strings.TrimLeft(base, "0")+"", &missing)
		lowStart := c.start - c.start%c.bs
		owed := 0
		for _, bu := range c.bundles {
			if bu.base >= missing || bu.base < lowStart {
				continue
			}
			for _, b := range bu.blocks {
				if b.Num >= c.start && b.Num >= bu.base {
					owed++
				}
			}
		}
		mu.Lock()
		defer mu.Unlock()
		return calls < owed
	}
	h := bstream.HandlerFunc(func(blk *pbbstream.Block, obj interface{}) error {
		mu.Lock()
		defer mu.Unlock()
		w.touch()
		pp := "ppBAD"
		if wo, ok := obj.(bstream.ObjectWrapper); ok {
			if s, ok := wo.WrappedObject().(string); ok && s == "pp:"+blk.Id {
				pp = "ppok"
			}
		}
		o.Impl("blk %s %d %s", tok(blk.Id), blk.Number, pp)
		k := calls
		calls++
		if c.failAt >= 0 && k == c.failAt {
			return fmt.Errorf("injected handler failure")
		}
		return nil
	})
	rd := NewRng(uint64(c.start*31 + c.stop*17 + uint64(len(c.bundles))))
	var rmu sync.Mutex
	pre := func(blk *pbbstream.Block) (interface{}, error) {
		if c.delays {
			rmu.Lock()
			d := rd.Intn(4)
			rmu.Unlock()
			if d > 0 {
				time.Sleep(time.Duration(d*150) * time.Microsecond)
			}
		}
		return "pp:" + blk.Id, nil
	}
	opts := []bstream.FileSourceOption{bstream.FileSourceWithBundleSize(c.bs), bstream.FileSourceWithRetryDelay(2 * time.Millisecond),
		bstream.FileSourceWithConcurrentPreprocess(pre, c.threads)}
	if c.stop != 0 {
		opts = append(opts, bstream.FileSourceWithStopBlock(c.stop))
	}
	fs := bstream.NewFileSource(store, c.start, h, nopLog, opts...)
	res := runSource(fs, w)
	mu.Lock()
	o.Impl("fsend %s", res)
	mu.Unlock()
	o.End()
	if res == "hang" {
		o.Flush()
	}
}

// layout: chain blocks into bundles by number
func layoutBundles(chain []TBlock, bs uint64) []fsBundle {
	m := map[uint64]*fsBundle{}
	var bases []uint64
	for _, b := range chain {
		base := b.Num - b.Num%bs
		if m[base] == nil {
			m[base] = &fsBundle{base: base}
			bases = append(bases, base)
		}
		m[base].blocks = append(m[base].blocks, b)
	}
	sort.Slice(bases, func(i, j int) bool { return bases[i] < bases[j] })
	var out []fsBundle
	for _, b := range bases {
		out = append(out, *m[b])
	}
	return out
}

func genChain(r *Rng, first uint64, n int, skip bool) []TBlock {
	var chain []TBlock
	num := first
	prev := fmt.Sprintf("%dz", first-1)
	if first == 0 {
		prev = ""
	}
	for i := 0; i < n; i++ {
		id := fmt.Sprintf("%da", num)
		lib := uint64(0)
		if len(chain) > 2 {
			lib = chain[len(chain)-2].Num
		}
		chain = append(chain, TBlock{ID: id, Parent: prev, Num: num, Lib: lib})
		prev = id
		num++
		if skip && r.Intn(5) == 0 {
			num += uint64(1 + r.Intn(2))
		}
	}
	return chain
}

func suiteFileSrc(o *Out, r *Rng, n int, tier string) {
	for i := 0; i < n; i++ {
		bs := uint64([]int{1, 2, 3, 5, 10}[r.Intn(5)])
		first := uint64(r.Intn(12))
		chain := genChain(r, first, 4+r.Intn(26), r.Intn(3) == 0)
		bundles := layoutBundles(chain, bs)
		// holes: every base between the first and the last bundle must exist unless we want a waiting outcome
		have := map[uint64]bool{}
		for _, b := range bundles {
			have[b.base] = true
		}
		lastBase := bundles[len(bundles)-1].base
		for b := bundles[0].base; b <= lastBase; b += bs {
			if !have[b] {
				bundles = append(bundles, fsBundle{base: b})
			}
		}
		sort.Slice(bundles, func(i, j int) bool { return bundles[i].base < bundles[j].base })
		c := fsCase{bs: bs, threads: 1 + r.Intn(8), failAt: -1, bundles: bundles, delays: true}
		// start anywhere (mid-file, on a missing number, before the first block)
		lastNum := chain[len(chain)-1].Num
		c.start = first + uint64(r.Intn(int(lastNum-first)+1))
		if r.Intn(6) == 0 {
			c.start = bundles[0].base
		}
		switch r.Intn(5) {
		case 0: // no stop: ends waiting for the file after the last one
		default:
			c.stop = c.start + uint64(r.Intn(int(lastNum-c.start)+3))
		}
		if r.Intn(6) == 0 { // legacy: last block of the previous bundle repeated at the head of a bundle
			k := 1 + r.Intn(len(bundles))
			if k < len(bundles) && len(bundles[k-1].blocks) > 0 {
				prevLast := bundles[k-1].blocks[len(bundles[k-1].blocks)-1]
				bundles[k].blocks = append([]TBlock{prevLast}, bundles[k].blocks...)
				o.Stat("filesrc.legacy_leading_block", 1)
			}
		}
		if r.Intn(7) == 0 { // break the parent link somewhere
			k := r.Intn(len(bundles))
			if len(bundles[k].blocks) > 0 {
				j := r.Intn(len(bundles[k].blocks))
				bundles[k].blocks[j].Parent = "broken"
				o.Stat("filesrc.non_sequential", 1)
			}
		}
		if r.Intn(8) == 0 && len(bundles) > 2 { // a missing bundle file in the middle
			k := 1 + r.Intn(len(bundles)-1)
			bundles = append(bundles[:k], bundles[k+1:]...)
			c.bundles = bundles
			o.Stat("filesrc.missing_bundle", 1)
		}
		if r.Intn(6) == 0 {
			c.failAt = r.Intn(6)
			o.Stat("filesrc.handler_failure", 1)
		}
		c.bundles = bundles
		runFileSrcCase(o, c)
	}
}

func parseBundleLine(ws []string) fsBundle {
	var bu fsBundle
	fmt.Sscan(ws[1], &bu.base)
	if ws[2] != "-" {
		for _, p := range strings.Split(ws[2], ",") {
			q := strings.Split(p, ":")
			b := TBlock{ID: q[0], Parent: q[1]}
			if b.ID == "-" {
				b.ID = ""
			}
			if b.Parent == "-" {
				b.Parent = ""
			}
			fmt.Sscan(q[2], &b.Num)
			fmt.Sscan(q[3], &b.Lib)
			bu.blocks = append(bu.blocks, b)
		}
	}
	return bu
}

func replayFileSrc(o *Out, lines []string) {
	var c fsCase
	open := false
	flush := func() {
		if open {
			runFileSrcCase(o, c)
		}
		c, open = fsCase{}, false
	}
	for _, l := range lines {
		ws := strings.Fields(l)
		if len(ws) == 0 {
			continue
		}
		switch ws[0] {
		case "case":
			flush()
			open = true
			fmt.Sscan(ws[3], &c.start)
			fmt.Sscan(ws[4], &c.stop)
			fmt.Sscan(ws[5], &c.bs)
			fmt.Sscan(ws[6], &c.threads)
			c.failAt = -1
			if ws[7] != "-" {
				fmt.Sscan(ws[7], &c.failAt)
			}
			c.delays = true
		case "bundle":
			c.bundles = append(c.bundles, parseBundleLine(ws))
		case "end":
			flush()
		}
	}
	flush()
}

// ---------------------------------------------------------------------------------------------- resolver

type rsFork struct {
	b        TBlock
	present  bool
	readable bool
}

type rsCase struct {
	mode    string // from | through
	start   uint64
	stop    uint64
	bs      uint64
	bundles []fsBundle
	forks   []rsFork
	cur     curRec
	failAt  int // the handler fails on its call number failAt+1 (0 = never fails; stored +1 so that the zero value means none)
}

func cursorableLine(blk *pbbstream.Block, obj interface{}) string {
	c, ok := obj.(bstream.Cursorable)
	if !ok {
		return fmt.Sprintf("ev raw %s %d", tok(blk.Id), blk.Number)
	}
	cur := c.Cursor()
	j := "-"
	step := stepName(cur.Step)
	if s, ok := obj.(bstream.Stepable); ok {
		if s.Step() != cur.Step {
			step = "CURSORMISMATCH-" + step
		}
		if jb := s.ReorgJunctionBlock(); jb != nil {
			j = refTok(jb)
		}
	}
	if cur.Block.ID() != blk.Id || cur.Block.Num() != blk.Number {
		step = "CURSORMISMATCH-" + strings.TrimPrefix(step, "CURSORMISMATCH-")
	}
	return fmt.Sprintf("ev %s %s %d %s %s %s", step, tok(blk.Id), blk.Number, refTok(cur.HeadBlock), refTok(cur.LIB), j)
}

func runResolverCase(o *Out, c rsCase) {
	o.Case("resolver", c.mode, c.start, c.stop, c.bs)
	for _, bu := range c.bundles {
		bundleLine(o, bu)
	}
	forked := dstore.NewMockStore(nil)
	for _, f := range c.forks {
		if !f.present {
			continue
		}
		o.Line("fork %s %d", blk4(f.b), b2i(f.readable))
		name := bstream.BlockFileName(filePB(f.b))
		if f.readable {
			forked.SetFile(name, bundleBytes([]TBlock{f.b}))
		} else {
			forked.SetFile(name, []byte("garbage that is not dbin"))
		}
	}
	if c.failAt > 0 {
		o.Line("failat %d", c.failAt-1)
	}
	o.Op("resume %s %s %s %s", c.cur.step, c.cur.blk, c.cur.head, c.cur.lib)
	merged := mergedStore(c.bundles, nil)
	var mu sync.Mutex
	calls := 0
	h := bstream.HandlerFunc(func(blk *pbbstream.Block, obj interface{}) error {
		mu.Lock()
		defer mu.Unlock()
		o.Impl("%s", cursorableLine(blk, obj))
		calls++
		if c.failAt > 0 && calls == c.failAt {
			return fmt.Errorf("injected handler failure")
		}
		return nil
	})
	opts := []bstream.FileSourceOption{bstream.FileSourceWithBundleSize(c.bs), bstream.FileSourceWithRetryDelay(2 * time.Millisecond),
		bstream.FileSourceWithStopBlock(c.stop)}
	var src *bstream.FileSource
	if c.mode == "through" {
		src = bstream.NewFileSourceThroughCursor(merged, forked, c.start, c.cur.cursor(), h, nopLog, opts...)
	} else {
		src = bstream.NewFileSourceFromCursor(merged, forked, c.cur.cursor(), h, nopLog, opts...)
	}
	res := runSource(src, nil)
	mu.Lock()
	o.Impl("rend %s", res)
	mu.Unlock()
	o.End()
}

// longID gives every id a common 18-character prefix so that file names carry truncated (16-char) ids
func longID(s string) string {
	if s == "" {
		return s
	}
	return "pppppppppppppppppp" + s
}

func suiteResolver(o *Out, r *Rng, n int, tier string) {
	for i := 0; i < n; i++ {
		// a history followed by a real Forkable gives real cursors and the final canonical chain
		rootNum := uint64(1 + r.Intn(4))
		to := TreeOpts{N: 4 + r.Intn(14), RootNum: rootNum, RootParent: fmt.Sprintf("%dz", rootNum-1),
			SkipNums: r.Intn(3) == 0, ForkBias: []int{1, 2, 3, 5}[r.Intn(4)], LibPolicy: r.Intn(3)}
		t := genTree(r, to)
		useLong := r.Intn(4) == 0
		mapID := func(s string) string {
			if useLong {
				return longID(s)
			}
			return s
		}
		var evs []curRec
		idx := 0
		h := bstream.HandlerFunc(func(blk *pbbstream.Block, obj interface{}) error {
			w := strings.Fields(evLine(blk, obj))
			evs = append(evs, curRec{idx: idx, step: w[1], blk: w[2] + ":" + w[3], head: w[4], lib: w[5]})
			idx++
			return nil
		})
		rootRef := bstream.NewBlockRef(mapID(t.Root.ID), t.Root.Num)
		p := forkable.New(h, forkable.WithExclusiveLIB(rootRef), forkable.WithKeptFinalBlocks(100000))
		order := arrival(r, t.Blocks, []int{0, 1, 3}[r.Intn(3)])
		all := map[string]TBlock{}
		mapped := func(b TBlock) TBlock { return TBlock{ID: mapID(b.ID), Parent: mapID(b.Parent), Num: b.Num, Lib: b.Lib} }
		all[mapID(t.Root.ID)] = mapped(t.Root)
		for _, b := range order {
			mb := mapped(b)
			all[mb.ID] = mb
			p.ProcessBlock(mb.pb(), nil)
		}
		headNum, headID, _, _, err := p.HeadInfo()
		if err != nil || len(evs) == 0 {
			continue
		}
		// canonical chain: root .. head following parents
		var chain []TBlock
		for id := headID; ; {
			b, ok := all[id]
			if !ok {
				break
			}
			chain = append([]TBlock{b}, chain...)
			if id == mapID(t.Root.ID) {
				break
			}
			id = b.Parent
		}
		if len(chain) == 0 || chain[0].ID != mapID(t.Root.ID) {
			continue
		}
		_ = headNum
		onChain := map[string]bool{}
		for _, b := range chain {
			onChain[b.ID] = true
		}
		bs := uint64([]int{2, 3, 5, 10}[r.Intn(4)])
		c := rsCase{mode: "from", bs: bs, bundles: layoutBundles(chain, bs), stop: chain[len(chain)-1].Num}
		// bundle files must exist for every base from the first one
		have := map[uint64]bool{}
		for _, b := range c.bundles {
			have[b.base] = true
		}
		rsLast := c.bundles[len(c.bundles)-1].base
		for b := c.bundles[0].base; b <= rsLast; b += bs {
			if !have[b] {
				c.bundles = append(c.bundles, fsBundle{base: b})
			}
		}
		sort.Slice(c.bundles, func(i, j int) bool { return c.bundles[i].base < c.bundles[j].base })
		missProb := []int{0, 0, 15, 40}[r.Intn(4)]
		for id, b := range all {
			if onChain[id] {
				continue
			}
			f := rsFork{b: b, present: r.Intn(100) >= missProb, readable: r.Intn(25) != 0}
			c.forks = append(c.forks, f)
		}
		sort.Slice(c.forks, func(i, j int) bool { return c.forks[i].b.ID < c.forks[j].b.ID })
		// a cursor delivered during the history
		var cand []curRec
		for _, e := range evs {
			if e.step == "new" || e.step == "undo" || e.step == "irr" {
				cand = append(cand, e)
			}
		}
		if len(cand) == 0 {
			continue
		}
		c.cur = cand[r.Intn(len(cand))]
		if r.Bool() { // prefer cursors whose block ended up forked out (the resolver's hard case)
			var forkedCand []curRec
			for _, e := range cand {
				if !onChain[strings.Split(e.blk, ":")[0]] && e.step != "irr" {
					forkedCand = append(forkedCand, e)
				}
			}
			if len(forkedCand) > 0 {
				c.cur = forkedCand[r.Intn(len(forkedCand))]
			}
		}
		undoOnCanon := false
		if r.Intn(2) == 0 { // an Undo cursor whose block became canonical again, with blocks between its LIB and its block
			var uc []curRec
			for _, e := range cand {
				if e.step == "undo" && onChain[strings.Split(e.blk, ":")[0]] && parseRefTok(e.lib).Num()+1 < parseRefTok(e.blk).Num() {
					uc = append(uc, e)
				}
			}
			if len(uc) > 0 {
				c.cur = uc[r.Intn(len(uc))]
				undoOnCanon = true
				o.Stat("resolver.cursor_undo_on_canonical_block", 1)
			}
		}
		o.Stat("resolver.cursor."+c.cur.step, 1)
		if !onChain[strings.Split(c.cur.blk, ":")[0]] {
			o.Stat("resolver.cursor_on_forked_block", 1)
		}
		if r.Intn(5) == 0 {
			c.mode = "through"
			lo := c.bundles[0].base
			bn := parseRefTok(c.cur.blk).Num()
			if bn < lo {
				bn = lo
			}
			c.start = lo + uint64(r.Intn(int(bn-lo)+1))
			if c.start < chain[0].Num {
				c.start = chain[0].Num
			}
			o.Stat("resolver.through", 1)
		}
		// fault injection (C11): the handler fails on one of its first calls
		if r.Intn(5) == 0 || (undoOnCanon && r.Bool()) {
			c.failAt = 1 + []int{0, 0, 0, 1, 2, 3, 5}[r.Intn(7)]
			o.Stat("resolver.handler_failure_injected", 1)
		}
		runResolverCase(o, c)
	}
}

func replayResolver(o *Out, lines []string) {
	var c rsCase
	open := false
	flush := func() {
		if open {
			runResolverCase(o, c)
		}
		c, open = rsCase{}, false
	}
	for _, l := range lines {
		ws := strings.Fields(l)
		if len(ws) == 0 {
			continue
		}
		switch ws[0] {
		case "case":
			flush()
			open = true
			c.mode = ws[3]
			fmt.Sscan(ws[4], &c.start)
			fmt.Sscan(ws[5], &c.stop)
			fmt.Sscan(ws[6], &c.bs)
		case "bundle":
			c.bundles = append(c.bundles, parseBundleLine(ws))
		case "failat":
			fmt.Sscan(ws[1], &c.failAt)
			c.failAt++
		case "fork":
			bu := parseBundleLine([]string{"bundle", "0", ws[1]})
			c.forks = append(c.forks, rsFork{b: bu.blocks[0], present: true, readable: ws[2] == "1"})
		case "op":
			if ws[1] == "resume" {
				c.cur = curRec{step: ws[2], blk: ws[3], head: ws[4], lib: ws[5]}
			}
		case "end":
			flush()
		}
	}
	flush()
}
