package main

import (
	"bytes"
	"context"
	"encoding/hex"
	"errors"
	"fmt"
	"io"
	"sort"
	"strings"
	"time"
	"unicode/utf8"

	"github.com/streamingfast/bstream"
	pbbstream "github.com/streamingfast/bstream/pb/sf/bstream/v1"
	"github.com/streamingfast/dbin"
	"github.com/streamingfast/dstore"
	"google.golang.org/protobuf/proto"
	"google.golang.org/protobuf/types/known/anypb"
	"google.golang.org/protobuf/types/known/timestamppb"
)

func init() {
	suites["dbin"] = suiteDbin
	replaySuites["dbin"] = replayDbin
	suites["oneblock"] = suiteOneBlock
	replaySuites["oneblock"] = func(o *Out, lines []string) { replayStateless(o, "oneblock", lines, runOneBlockOp) }
}

func sumOf(b *pbbstream.Block) string {
	hp, tu, val := 0, "-", "-"
	if b.Payload != nil {
		hp, tu, val = 1, hx([]byte(b.Payload.TypeUrl)), hx(b.Payload.Value)
	}
	ts := "nil"
	if b.Timestamp != nil {
		ts = fmt.Sprintf("%d.%d", b.Timestamp.Seconds, b.Timestamp.Nanos)
	}
	return fmt.Sprintf("%s:%d:%s:%d:%d:%d:%s:%s:%d:%s:%s", hx([]byte(b.Id)), b.Number, hx([]byte(b.ParentId)), b.ParentNum, b.LibNum,
		hp, tu, val, int(b.PayloadKind), hx(b.PayloadBuffer), ts)
}

func genFileBlock(r *Rng, legacy bool) *pbbstream.Block {
	vid := func() string { // protobuf string fields must be valid UTF-8
		s := string(genID(r, false))
		if !utf8.ValidString(s) {
			return hex.EncodeToString([]byte(s))
		}
		return s
	}
	b := &pbbstream.Block{
		Id:       vid(),
		ParentId: vid(),
		Number:   r.Height(),
		LibNum:   r.Height(),
	}
	if legacy && r.Intn(3) == 0 {
		// legacy blocks at or just around the first streamable block (the suite runs with first streamable 0, 1 or 2): the
		// reader derives their parent number only *above* it
		b.Number = uint64(r.Intn(4))
		fileBlockLegacyLow++
	}
	if r.Intn(3) > 0 {
		b.ParentNum = b.Number - 1
	}
	if r.Intn(6) > 0 {
		b.Timestamp = timestamppb.New(time.Unix(int64(r.Intn(2000000000)), int64(r.Intn(1000000000))))
	}
	// payload size: mostly small, sometimes a few hundred bytes to a few KiB, and sometimes chosen so that the
	// *marshalled* block lands within a few bytes of a power of two (framing code is size-sensitive exactly there)
	n, target := r.Intn(60), -1
	switch r.Intn(10) {
	case 0:
		n = r.Intn(1500)
	case 1:
		n = r.Intn(6000)
	case 2, 3:
		target = (1 << (6 + r.Intn(8))) + r.Intn(13) - 6
	}
	kind, ver, tu := pbbstream.Protocol([]int32{0, 1, 2, 5, 1, 2}[r.Intn(6)]), int32(r.Intn(3)),
		[]string{"type.googleapis.com/sf.test.Block", "t", "type.googleapis.com/sf.ethereum.type.v2.Block"}[r.Intn(3)]
	set := func(n int) {
		pl := make([]byte, n)
		for i := range pl {
			pl[i] = byte(1 + (i*7+n)%255)
		}
		if n > 0 {
			pl[0] = byte(r.Intn(256))
		}
		if legacy {
			b.PayloadKind, b.PayloadVersion, b.PayloadBuffer = kind, ver, pl
		} else {
			b.Payload = &anypb.Any{TypeUrl: tu, Value: pl}
		}
	}
	set(n)
	for k := 0; target >= 0 && k < 4; k++ {
		d := target - proto.Size(b)
		if d == 0 || n+d < 0 {
			break
		}
		n += d
		set(n)
	}
	if target >= 0 {
		fileBlockNearPow2++
	}
	if proto.Size(b) > 400 {
		fileBlockLarge++
	}
	return b
}

var fileBlockNearPow2, fileBlockLarge, fileBlockLegacyLow int

// oracleFor splits a (possibly damaged) file with the dbin library and decodes every message with proto.Unmarshal.
func oracleFor(o *Out, file []byte) {
	rd := dbin.NewReader(bytes.NewReader(file))
	if _, err := rd.ReadHeader(); err != nil {
		return
	}
	seen := map[string]bool{}
	for i := 0; i < 64; i++ {
		msg, err := rd.ReadMessage()
		if err != nil {
			return
		}
		k := hx(msg)
		if !seen[k] {
			seen[k] = true
			blk := new(pbbstream.Block)
			if e := proto.Unmarshal(msg, blk); e != nil {
				o.Line("oracle %s bad", k)
			} else {
				o.Line("oracle %s %s", k, sumOf(blk))
			}
		}
	}
}

// hugeFrame reports whether reading this (damaged) file would make the dbin library allocate a buffer of more
// than 16 MiB for a bogus length prefix. Such variants are skipped by the generator only to keep the run fast
// (each costs seconds of page-table work); the outcome for them is the same "errread" class.
func hugeFrame(file []byte) bool {
	if len(file) < 7 || string(file[:4]) != "dbin" {
		return false
	}
	pos := 0
	switch file[4] {
	case 0:
		pos = 10
	case 1:
		pos = 7 + int(file[5])<<8 + int(file[6])
	default:
		return false
	}
	for pos < len(file) {
		var lb [4]byte
		copy(lb[:], file[pos:])
		l := int(lb[0])<<24 | int(lb[1])<<16 | int(lb[2])<<8 | int(lb[3])
		if l > 16<<20 {
			return true
		}
		pos += 4 + l
	}
	return false
}

func readFile(o *Out, file []byte, tag string) {
	if hugeFrame(file) {
		o.Stat("dbin.skipped_huge_alloc", 1)
		return
	}
	oracleFor(o, file)
	o.Op("read %s %s", hx(file), tag)
	res := safely(func() string {
		rd, err := bstream.NewDBinBlockReader(bytes.NewReader(file))
		if err != nil {
			o.Impl("end errheader")
			return ""
		}
		o.Impl("ct %s", hx([]byte(rd.Header.ContentType)))
		for i := 0; i < 200; i++ {
			blk, err := rd.Read()
			if err == io.EOF {
				o.Impl("end eof")
				return ""
			}
			if err != nil {
				m := err.Error()
				switch {
				case strings.Contains(m, "failed reading next dbin message"):
					o.Impl("end errread")
				case strings.Contains(m, "unable to read block proto"), strings.Contains(m, "support legacy block"):
					o.Impl("end errdecode")
				default:
					o.Impl("end err-other")
				}
				return ""
			}
			o.Impl("blk %s", sumOf(blk))
		}
		o.Impl("end runaway")
		return ""
	})
	if res == "panic" {
		o.Impl("end panic")
	}
}

func runDbinCase(o *Out, fsb uint64, blocks []*pbbstream.Block, variants [][]string) {
	old := bstream.GetProtocolFirstStreamableBlock
	bstream.GetProtocolFirstStreamableBlock = fsb
	defer func() { bstream.GetProtocolFirstStreamableBlock = old }()
	o.Case("dbin", fsb)
	var msgs []string
	for _, b := range blocks {
		m, _ := proto.Marshal(b)
		msgs = append(msgs, hx(m))
		o.Line("orig %s %s", hx(m), sumOf(b))
	}
	ct := ""
	if len(blocks) > 0 && blocks[0].Payload != nil {
		ct = blocks[0].Payload.TypeUrl
	}
	ms := "-"
	if len(msgs) > 0 {
		ms = strings.Join(msgs, ",")
	}
	o.Op("write %s %s", hx([]byte(ct)), ms)
	var buf bytes.Buffer
	res := safely(func() string {
		w, _ := bstream.NewDBinBlockWriter(&buf)
		for _, b := range blocks {
			if err := w.Write(b); err != nil {
				return "err"
			}
		}
		return "file " + hx(buf.Bytes())
	})
	o.Impl("%s", res)
	if !strings.HasPrefix(res, "file") {
		o.End()
		return
	}
	file := buf.Bytes()
	for _, v := range variants {
		switch v[0] {
		case "intact":
			readFile(o, file, "intact 0")
		case "trunc":
			var k int
			fmt.Sscan(v[1], &k)
			if k > len(file) {
				k = len(file)
			}
			readFile(o, file[:k], "trunc "+v[1])
		case "corrupt":
			var p, val int
			fmt.Sscan(v[1], &p)
			fmt.Sscan(v[2], &val)
			if p >= len(file) {
				continue
			}
			f2 := append([]byte(nil), file...)
			f2[p] = byte(val)
			readFile(o, f2, fmt.Sprintf("corrupt %d", p))
		}
	}
	o.End()
}

func suiteDbin(o *Out, r *Rng, n int, tier string) {
	for i := 0; i < n; i++ {
		nb := 1 + r.Intn(4)
		var blocks []*pbbstream.Block
		for j := 0; j < nb; j++ {
			legacy := r.Intn(4) == 0 && (j > 0 || r.Intn(6) == 0)
			blocks = append(blocks, genFileBlock(r, legacy))
		}
		if r.Intn(25) == 0 && len(blocks) > 1 { // a block that marshals to zero bytes
			blocks[1+r.Intn(len(blocks)-1)] = &pbbstream.Block{}
			o.Stat("dbin.empty_message", 1)
		}
		fsb := uint64([]int{0, 0, 1, 2}[r.Intn(4)])
		// legacy blocks at or just below the first streamable block, with a parent number that is not "number - 1": the
		// reader derives the parent number of a legacy block only above the first streamable block
		for _, b := range blocks {
			if b.Payload == nil && b.PayloadBuffer != nil && fsb > 0 && r.Intn(2) == 0 {
				b.Number = fsb - uint64(r.Intn(int(fsb)+1))
				b.ParentNum = []uint64{0, 7, b.Number}[r.Intn(3)]
				o.Stat("dbin.legacy_block_at_or_below_first_streamable", 1)
			}
		}
		// layout, to place damage at interesting offsets
		var buf bytes.Buffer
		w, _ := bstream.NewDBinBlockWriter(&buf)
		ok := true
		func() {
			defer func() {
				if recover() != nil {
					ok = false
				}
			}()
			for _, b := range blocks {
				if w.Write(b) != nil {
					ok = false
				}
			}
		}()
		size := buf.Len()
		variants := [][]string{{"intact"}}
		if ok && size > 0 {
			hdr := 7
			if blocks[0].Payload != nil {
				hdr += len(blocks[0].Payload.TypeUrl)
			}
			nt, nc := 6, 6
			if tier == "thorough" {
				nt, nc = 40, 40
				if size > 1500 { // every variant carries the whole file in hex: keep the large files affordable
					nt, nc = 10, 10
				}
			}
			for k := 0; k < nt; k++ {
				var p int
				switch r.Intn(4) {
				case 0:
					p = r.Intn(hdr + 1)
				case 1:
					p = hdr + r.Intn(5)
				case 2:
					p = size - r.Intn(min(size, 6))
				default:
					p = r.Intn(size + 1)
				}
				variants = append(variants, []string{"trunc", fmt.Sprint(p)})
				o.Stat("dbin.truncations", 1)
			}
			for k := 0; k < nc; k++ {
				var p int
				switch r.Intn(4) {
				case 0:
					p = r.Intn(hdr)
				case 1:
					p = hdr + r.Intn(4) // first length prefix
				default:
					p = r.Intn(size)
				}
				val := []int{0, 1, 2, 0x7f, 0x80, 0xff, r.Intn(256)}[r.Intn(7)]
				if p >= hdr && p < hdr+1 && val > 2 {
					val = 1 // keep a damaged top length byte below 32 MiB
				}
				variants = append(variants, []string{"corrupt", fmt.Sprint(p), fmt.Sprint(val)})
				o.Stat("dbin.corruptions", 1)
			}
		}
		runDbinCase(o, fsb, blocks, variants)
	}
	o.Stat("dbin.blocks_marshalled_near_power_of_two", int64(fileBlockNearPow2))
	o.Stat("dbin.blocks_over_400_bytes", int64(fileBlockLarge))
	o.Stat("dbin.legacy_blocks_numbered_0_to_3", int64(fileBlockLegacyLow))
}

func replayDbin(o *Out, lines []string) {
	var blocks []*pbbstream.Block
	var variants [][]string
	var fsb uint64
	open := false
	flush := func() {
		if open {
			runDbinCase(o, fsb, blocks, variants)
		}
		blocks, variants, open = nil, nil, false
	}
	for _, l := range lines {
		ws := strings.Fields(l)
		if len(ws) == 0 {
			continue
		}
		switch ws[0] {
		case "case":
			flush()
			open = true
			fmt.Sscan(ws[3], &fsb)
		case "orig":
			blk := new(pbbstream.Block)
			proto.Unmarshal(unhx(ws[1]), blk)
			blocks = append(blocks, blk)
		case "op":
			if ws[1] == "read" && len(ws) >= 5 {
				switch ws[3] {
				case "intact":
					variants = append(variants, []string{"intact"})
				case "trunc":
					variants = append(variants, []string{"trunc", ws[4]})
				case "corrupt":
					f := unhx(ws[2])
					var p int
					fmt.Sscan(ws[4], &p)
					if p < len(f) {
						variants = append(variants, []string{"corrupt", ws[4], fmt.Sprint(int(f[p]))})
					}
				}
			}
		case "end":
			flush()
		}
	}
	flush()
}

// ---------------------------------------------------------------------------------------------- oneblock

func genNameID(r *Rng) []byte {
	switch r.Intn(8) {
	case 0:
		return []byte(fmt.Sprintf("%016x", r.U64()))
	case 1:
		return []byte(fmt.Sprintf("%016x%016x%016x%016x", r.U64(), r.U64(), r.U64(), r.U64()))
	case 2:
		return []byte(fmt.Sprintf("%017x", r.U64()))
	case 3:
		return []byte("a-b")
	case 4:
		return []byte("")
	case 5:
		return []byte(fmt.Sprintf("%x", r.U64()>>uint(r.Intn(60))))
	default:
		return []byte(fmt.Sprintf("%08x", r.U64()&0xffffffff))
	}
}

func runOneBlockOp(o *Out, ws []string) {
	o.Op("%s", strings.Join(ws, " "))
	u := func(s string) uint64 { var v uint64; fmt.Sscan(s, &v); return v }
	showParsed := func(n uint64, id, prev string, lib uint64, canon string, err error) string {
		if err != nil {
			return "err"
		}
		return fmt.Sprintf("ok %d %s %s %d %s", n, hx([]byte(id)), hx([]byte(prev)), lib, hx([]byte(canon)))
	}
	res := safely(func() string {
		switch ws[0] {
		case "fname":
			b := &pbbstream.Block{Number: u(ws[1]), Id: string(unhx(ws[2])), ParentId: string(unhx(ws[3])), LibNum: u(ws[4])}
			return hx([]byte(bstream.BlockFileNameWithSuffix(b, string(unhx(ws[5])))))
		case "parse":
			return showParsed(bstream.ParseFilename(string(unhx(ws[1]))))
		case "rt":
			b := &pbbstream.Block{Number: u(ws[1]), Id: string(unhx(ws[2])), ParentId: string(unhx(ws[3])), LibNum: u(ws[4])}
			return showParsed(bstream.ParseFilename(bstream.BlockFileName(b)))
		case "mfetch":
			// FetchBlockFromMergedBlocksStore(num) over one merged bundle: mfetch <num> <base> <id:parent:num:lib,…>
			store := dstore.NewMockStore(nil)
			bu := parseBundleLine([]string{"bundle", ws[2], ws[3]})
			store.SetFile(fmt.Sprintf("%010d", bu.base), bundleBytes(bu.blocks))
			blk, err := bstream.FetchBlockFromMergedBlocksStore(context.Background(), u(ws[1]), store)
			if errors.Is(err, dstore.ErrNotFound) {
				return "notfound"
			}
			if err != nil {
				return "err"
			}
			if blk == nil {
				return "nilblock"
			}
			return fmt.Sprintf("found %s %d", tok(blk.Id), blk.Number)
		case "fetch":
			store := dstore.NewMockStore(nil)
			if ws[3] != "-" {
				for _, nh := range strings.Split(ws[3], ",") {
					name := string(unhx(nh))
					canon := name
					if p := strings.Split(name, "-"); len(p) == 5 {
						canon = strings.Join(p[:4], "-")
					}
					var buf bytes.Buffer
					w, _ := bstream.NewDBinBlockWriter(&buf)
					w.Write(&pbbstream.Block{Id: canon, Number: 1, Payload: &anypb.Any{TypeUrl: "t"}})
					store.SetFile(name, buf.Bytes())
				}
			}
			blk, err := bstream.FetchBlockFromOneBlockStore(context.Background(), u(ws[1]), string(unhx(ws[2])), store)
			if errors.Is(err, dstore.ErrNotFound) {
				return "notfound"
			}
			if err != nil {
				return "err"
			}
			if blk == nil {
				return "nilblock"
			}
			return "found " + hx([]byte(blk.Id))
		}
		return "bad-op"
	})
	o.Impl("%s", res)
}

func suiteOneBlock(o *Out, r *Rng, n int, tier string) {
	for i := 0; i < n; i++ {
		o.Case("oneblock")
		for j, k := 0, 1+r.Intn(4); j < k; j++ {
			num, lib := r.Height(), r.Height()
			id, prev := genNameID(r), genNameID(r)
			switch r.Intn(8) {
			case 0, 1:
				o.Stat("oneblock.op.rt", 1)
				if num >= 1<<32 || lib >= 1<<32 {
					o.Stat("oneblock.rt.above_2^32", 1)
				}
				runOneBlockOp(o, []string{"rt", fmt.Sprint(num), hx(id), hx(prev), fmt.Sprint(lib)})
			case 2:
				o.Stat("oneblock.op.fname", 1)
				suf := [][]byte{[]byte("generated"), []byte("mindread1"), []byte(""), []byte("a-b")}[r.Intn(4)]
				runOneBlockOp(o, []string{"fname", fmt.Sprint(num), hx(id), hx(prev), fmt.Sprint(lib), hx(suf)})
			case 3, 4:
				o.Stat("oneblock.op.parse", 1)
				b := &pbbstream.Block{Number: num, Id: string(id), ParentId: string(prev), LibNum: lib}
				name := bstream.BlockFileName(b)
				switch r.Intn(6) {
				case 0:
				case 1:
					p := strings.Split(name, "-")
					p[[]int{0, 3}[r.Intn(2)]] = []string{"", "+1", "-1", "18446744073709551616", "4294967296", "007", "1e3", " 1", "٣"}[r.Intn(9)]
					name = strings.Join(p, "-")
				case 2:
					p := strings.Split(name, "-")
					i := r.Intn(len(p))
					p = append(p[:i], p[i+1:]...)
					name = strings.Join(p, "-")
				case 3:
					name = name + "-extra"
				case 4:
					bs := []byte(name)
					if len(bs) > 0 {
						bs[r.Intn(len(bs))] = byte(r.Intn(256))
					}
					name = string(bs)
				default:
					name = strings.Repeat("-", r.Intn(7))
				}
				runOneBlockOp(o, []string{"parse", hx([]byte(name))})
			case 7:
				// a block by number out of a merged bundle whose chain may skip heights
				o.Stat("oneblock.op.mfetch", 1)
				base := uint64(100 * r.Intn(3))
				var parts []string
				n := base + uint64(r.Intn(3))
				var nums []uint64
				prev := fmt.Sprintf("%dz", n)
				for t, m := 0, 2+r.Intn(8); t < m && n < base+100; t++ {
					id := fmt.Sprintf("%da", n)
					parts = append(parts, fmt.Sprintf("%s:%s:%d:%d", id, prev, n, base))
					nums = append(nums, n)
					prev = id
					n += 1 + uint64([]int{0, 0, 0, 1, 2, 5}[r.Intn(6)])
				}
				q := nums[r.Intn(len(nums))]
				if r.Intn(2) == 0 {
					q = nums[0] + uint64(r.Intn(int(nums[len(nums)-1]-nums[0])+2)) // possibly a skipped height, or just past the end
				}
				if q >= base+100 {
					q = base + 99
				}
				runOneBlockOp(o, []string{"mfetch", fmt.Sprint(q), fmt.Sprint(base), strings.Join(parts, ",")})
			default:
				o.Stat("oneblock.op.fetch", 1)
				base := uint64(r.Intn(50))
				var names []string
				var cand [][2]string
				sharedParents := []string{fmt.Sprintf("%016x", r.U64()), fmt.Sprintf("%016x", r.U64())}
				for t, m := 0, 1+r.Intn(6); t < m; t++ {
					bn := base + uint64(r.Intn(4))
					bid := fmt.Sprintf("%016x", r.U64())
					if r.Intn(5) == 0 {
						bid = fmt.Sprintf("%032x", r.U64())
					}
					// siblings: blocks of the same height often share their parent (ordinary fork blocks)
					par := fmt.Sprintf("%016x", r.U64())
					if r.Intn(3) > 0 {
						par = sharedParents[r.Intn(2)]
						o.Stat("oneblock.fetch.file_with_shared_parent", 1)
					}
					b := &pbbstream.Block{Number: bn, Id: bid, ParentId: par, LibNum: base}
					names = append(names, bstream.BlockFileNameWithSuffix(b, []string{"generated", "m1"}[r.Intn(2)]))
					cand = append(cand, [2]string{fmt.Sprint(bn), bid})
				}
				if r.Intn(4) == 0 {
					names = append(names, "garbage", fmt.Sprintf("%010d-x", base))
				}
				sort.Strings(names)
				var hs []string
				for _, nm := range names {
					hs = append(hs, hx([]byte(nm)))
				}
				qn, qid := cand[r.Intn(len(cand))][0], cand[r.Intn(len(cand))][1]
				if r.Intn(4) == 0 {
					qid = fmt.Sprintf("%016x", r.U64())
				}
				if r.Intn(4) == 0 {
					qid = "prefix" + qid
				}
				runOneBlockOp(o, []string{"fetch", qn, hx([]byte(qid)), strings.Join(hs, ",")})
			}
		}
		o.End()
	}
}

var _ = hex.EncodeToString
