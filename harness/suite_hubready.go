package main

import (
	"fmt"
	"sort"
	"strings"

	"github.com/streamingfast/bstream"
	"github.com/streamingfast/bstream/hub"
)

// suite hubready (C09, readiness): ForkableHub.bootstrap driven block by block.
//   case n hubready <kept> <fsb> <nofiles 0|1>
//   file <id:parent:num:lib>         one-block files the bootstrap source replays (from the start block it is given)
//   op live <id:parent:num:lib>      a block arriving from the live source
//   impl ready <0|1> head <num>

func init() {
	suites["hubready"] = suiteHubReady
	replaySuites["hubready"] = replayHubReady
}

type hrCase struct {
	kept    int
	fsb     uint64
	nofiles bool
	files   []TBlock
	live    []TBlock
}

func runHubReadyCase(o *Out, c hrCase) {
	old := bstream.GetProtocolFirstStreamableBlock
	bstream.GetProtocolFirstStreamableBlock = c.fsb
	defer func() { bstream.GetProtocolFirstStreamableBlock = old }()
	o.Case("hubready", c.kept, c.fsb, b2i(c.nofiles))
	for _, f := range c.files {
		o.Line("file %s", blk4(f))
	}
	lsf := bstream.NewTestSourceFactory()
	factory := bstream.SourceFromNumFactory(func(start uint64, h bstream.Handler) bstream.Source {
		if c.nofiles {
			return nil
		}
		var sel []TBlock
		for _, f := range c.files {
			if f.Num >= start {
				sel = append(sel, f)
			}
		}
		ps := newPushSrc(h, sel)
		ps.gap = 0
		ps.after = func(p *pushSrc) { p.Shutdown(nil) }
		return ps
	})
	fh := hub.NewForkableHub(lsf.NewSource, factory, c.kept)
	go fh.Run()
	ls := <-lsf.Created
	for _, b := range c.live {
		o.Op("live %s", blk4(b))
		res := safely(func() string {
			ls.Push(b.pb(), nil)
			low := uint64(0)
			if fh.IsReady() {
				low = fh.LowestBlockNum()
			}
			return fmt.Sprintf("ready %d head %d lowest %d", b2i(fh.IsReady()), fh.HeadNum(), low)
		})
		o.Impl("%s", res)
	}
	o.End()
	fh.Shutdown(nil)
}

func suiteHubReady(o *Out, r *Rng, n int, tier string) {
	for i := 0; i < n; i++ {
		rootNum := uint64(1 + r.Intn(5))
		if r.Intn(3) == 0 {
			rootNum = uint64(95 + r.Intn(10)) // start blocks rounded down to a multiple of 100 matter
		}
		to := TreeOpts{N: 6 + r.Intn(16), RootNum: rootNum, RootParent: fmt.Sprintf("%dz", rootNum-1),
			SkipNums: r.Intn(3) == 0, ForkBias: []int{0, 1, 2, 3}[r.Intn(4)], LibPolicy: []int{0, 0, 1, 2}[r.Intn(4)]}
		t := genTree(r, to)
		all := append([]TBlock{t.Root}, t.Blocks...)
		sort.SliceStable(all, func(a, b int) bool { return all[a].Num < all[b].Num })
		c := hrCase{kept: []int{0, 1, 5, 100, 100}[r.Intn(5)], nofiles: r.Intn(6) == 0}
		if r.Intn(4) == 0 {
			c.fsb = rootNum + uint64(r.Intn(3))
		}
		// one-block files exist up to some height (sometimes with a hole); everything else arrives live, in arrival order
		cut := all[r.Intn(len(all))].Num
		hole := uint64(0)
		if r.Intn(4) == 0 {
			hole = all[r.Intn(len(all))].Num
			o.Stat("hubready.hole_in_files", 1)
		}
		inFiles := map[string]bool{}
		for _, b := range all {
			if b.Num <= cut && b.Num != hole {
				c.files = append(c.files, b)
				inFiles[b.ID] = true
			}
		}
		for _, b := range arrival(r, append([]TBlock{t.Root}, t.Blocks...), []int{0, 0, 1}[r.Intn(3)]) {
			if !inFiles[b.ID] || r.Intn(6) == 0 { // some blocks come both ways
				c.live = append(c.live, b)
			}
		}
		if len(c.live) == 0 {
			continue
		}
		if c.nofiles {
			o.Stat("hubready.no_one_block_source", 1)
		}
		runHubReadyCase(o, c)
	}
}

func replayHubReady(o *Out, lines []string) {
	var c hrCase
	open := false
	flush := func() {
		if open {
			runHubReadyCase(o, c)
		}
		c, open = hrCase{}, false
	}
	for _, l := range lines {
		ws := strings.Fields(l)
		if len(ws) == 0 {
			continue
		}
		switch ws[0] {
		case "case":
			flush()
			open = true
			fmt.Sscan(ws[3], &c.kept)
			fmt.Sscan(ws[4], &c.fsb)
			c.nofiles = ws[5] == "1"
		case "file":
			bu := parseBundleLine([]string{"bundle", "0", ws[1]})
			c.files = append(c.files, bu.blocks[0])
		case "op":
			if len(ws) >= 3 && ws[1] == "live" {
				bu := parseBundleLine([]string{"bundle", "0", ws[2]})
				c.live = append(c.live, bu.blocks[0])
			}
		case "end":
			flush()
		}
	}
	flush()
}
