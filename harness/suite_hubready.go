package main

import (
	"context"
	"errors"
	"fmt"
	"sort"
	"strings"
	"sync"
	"time"

	"github.com/streamingfast/bstream"
	"github.com/streamingfast/bstream/hub"
	pbbstream "github.com/streamingfast/bstream/pb/sf/bstream/v1"
	"google.golang.org/grpc"
)

// fakeDgrpc is the dgrpc server the hub's BlockstreamServer registers itself with (never launched)
type fakeDgrpc struct{ gs *grpc.Server }

func (f *fakeDgrpc) RegisterService(fn func(gs grpc.ServiceRegistrar)) { fn(f.gs) }
func (f *fakeDgrpc) Launch(string)                                     {}
func (f *fakeDgrpc) ServiceRegistrar() grpc.ServiceRegistrar           { return f.gs }
func (f *fakeDgrpc) OnTerminated(func(error))                          {}
func (f *fakeDgrpc) Shutdown(time.Duration)                            {}

// capStream is an in-memory BlockStream_BlocksServer: it records what is sent and ends the stream (by failing the
// send) when the sentinel block arrives — the block pushed live right after the request, so that the end of the
// stream does not depend on timing
type capStream struct {
	grpc.ServerStream
	mu       sync.Mutex
	seen     []*pbbstream.Block
	sentinel string
	first    chan struct{}
	once     sync.Once
}

func (s *capStream) Context() context.Context { return context.Background() }
func (s *capStream) Send(b *pbbstream.Block) error {
	s.mu.Lock()
	defer s.mu.Unlock()
	if b.Id == s.sentinel {
		return errors.New("sentinel reached")
	}
	s.seen = append(s.seen, b)
	s.once.Do(func() { close(s.first) })
	return nil
}

// suite hubready (C09, readiness): ForkableHub.bootstrap driven block by block.
//   case n hubready <kept> <fsb> <nofiles 0|1>
//   file <id:parent:num:lib>         one-block files the bootstrap source replays (from the start block it is given)
//   op live <id:parent:num:lib>      a block arriving from the live source
//   impl ready <0|1> head <num>
//   op bsblocks <burst>              BlockstreamServer.Blocks with that burst on the (ready) hub; the next `op live` is the
//                                    sentinel: a block extending the head, pushed once the burst has started to arrive
//   impl bs <id:num,…>  impl bsret <ok|nosrc|hang>

func init() {
	suites["hubready"] = suiteHubReady
	replaySuites["hubready"] = replayHubReady
}

var bsTimeouts int

type hrOp struct {
	bs    bool
	burst int64
	blk   TBlock
}

type hrCase struct {
	kept    int
	fsb     uint64
	nofiles bool
	files   []TBlock
	live    []TBlock // generation: the live blocks; then `bursts` requests follow
	bursts  []int64
	ops     []hrOp // replay: the recorded op sequence
}

func runHubReadyCase(o *Out, c hrCase) {
	old := bstream.GetProtocolFirstStreamableBlock
	bstream.GetProtocolFirstStreamableBlock = c.fsb
	defer func() { bstream.GetProtocolFirstStreamableBlock = old }()
	o.Case("hubready", c.kept, c.fsb, b2i(c.nofiles))
	for _, f := range c.files {
		o.Line("file %s", blk4(f))
	}
	lsf := bstream.NewTestSourceFactory()
	factory := bstream.SourceFromNumFactory(func(start uint64, h bstream.Handler) bstream.Source {
		if c.nofiles {
			return nil
		}
		var sel []TBlock
		for _, f := range c.files {
			if f.Num >= start {
				sel = append(sel, f)
			}
		}
		ps := newPushSrc(h, sel)
		ps.gap = 0
		ps.after = func(p *pushSrc) { p.Shutdown(nil) }
		return ps
	})
	fh := hub.NewForkableHub(lsf.NewSource, factory, c.kept)
	go fh.Run()
	ls := <-lsf.Created
	live := func(b TBlock) {
		o.Op("live %s", blk4(b))
		res := safely(func() string {
			ls.Push(b.pb(), nil)
			low := uint64(0)
			if fh.IsReady() {
				low = fh.LowestBlockNum()
			}
			return fmt.Sprintf("ready %d head %d lowest %d", b2i(fh.IsReady()), fh.HeadNum(), low)
		})
		o.Impl("%s", res)
	}
	var bsrv *hub.BlockstreamServer
	nsent := 0
	// bsblocks: sentinel == nil lets the runner build it from the hub's head
	bsblocks := func(burst int64, sentinel *TBlock) {
		if !fh.IsReady() || bsTimeouts >= 3 {
			return // (after three requests that sent nothing at all, no further request is made in this run: each costs seconds)
		}
		headNum, headID, _, headLib, err := fh.HeadInfo()
		if err != nil {
			return
		}
		if burst < -1 && uint64(-burst) > headNum {
			return // an empty snapshot: there is no first block to synchronise the sentinel on
		}
		if sentinel == nil {
			nsent++
			sentinel = &TBlock{ID: fmt.Sprintf("%ds%d", headNum+1, nsent), Parent: headID, Num: headNum + 1, Lib: headLib}
		}
		if bsrv == nil {
			bsrv = fh.NewBlockstreamServer(&fakeDgrpc{gs: grpc.NewServer()})
		}
		o.Op("bsblocks %d", burst)
		st := &capStream{sentinel: sentinel.ID, first: make(chan struct{})}
		ret := make(chan error, 1)
		go func() {
			defer func() {
				if recover() != nil {
					ret <- errors.New("panic")
				}
			}()
			ret <- bsrv.Blocks(&pbbstream.BlockRequest{Burst: burst, Requester: "verif"}, st)
		}()
		outcome := ""
		select {
		case <-st.first:
		case <-ret:
			outcome = "nosrc" // returned before anything was sent: no source for the request
		case <-time.After(3 * time.Second): // nothing arrives (an empty snapshot): the sentinel will end the stream
			bsTimeouts++
		}
		report := func() {
			st.mu.Lock()
			got := append([]*pbbstream.Block(nil), st.seen...)
			st.mu.Unlock()
			sort.SliceStable(got, func(i, j int) bool { // ties in height by id; the height order itself is the implementation's
				if got[i].Number != got[j].Number {
					return false
				}
				return got[i].Id < got[j].Id
			})
			var parts []string
			for _, b := range got {
				parts = append(parts, fmt.Sprintf("%s:%d", tok(b.Id), b.Number))
			}
			l := "-"
			if len(parts) > 0 {
				l = strings.Join(parts, ",")
			}
			o.Impl("bs %s", l)
			o.Impl("bsret %s", outcome)
		}
		if outcome == "nosrc" {
			report()
			live(*sentinel)
			return
		}
		// push the sentinel; its own op/impl lines are printed after the request's
		ls.Push(sentinel.pb(), nil)
		select {
		case <-ret:
			outcome = "ok"
		case <-time.After(5 * time.Second):
			outcome = "hang"
		}
		report()
		o.Op("live %s", blk4(*sentinel))
		low := uint64(0)
		if fh.IsReady() {
			low = fh.LowestBlockNum()
		}
		o.Impl("ready %d head %d lowest %d", b2i(fh.IsReady()), fh.HeadNum(), low)
	}
	if c.ops != nil {
		for i := 0; i < len(c.ops); i++ {
			op := c.ops[i]
			if !op.bs {
				live(op.blk)
				continue
			}
			if i+1 < len(c.ops) && !c.ops[i+1].bs {
				bsblocks(op.burst, &c.ops[i+1].blk)
				i++
			} else {
				bsblocks(op.burst, nil)
			}
		}
	} else {
		for _, b := range c.live {
			live(b)
		}
		for _, burst := range c.bursts {
			bsblocks(burst, nil)
		}
	}
	o.End()
	fh.Shutdown(nil)
}

func suiteHubReady(o *Out, r *Rng, n int, tier string) {
	for i := 0; i < n; i++ {
		rootNum := uint64(1 + r.Intn(5))
		if r.Intn(3) == 0 {
			rootNum = uint64(95 + r.Intn(10)) // start blocks rounded down to a multiple of 100 matter
		}
		if r.Intn(15) == 0 {
			rootNum = []uint64{(uint64(1) << 63) - uint64(1+r.Intn(4)), ^uint64(0) - 400}[r.Intn(2)] // heights are uint64
			o.Stat("hubready.heights_in_the_upper_half_of_uint64", 1)
		}
		to := TreeOpts{N: 6 + r.Intn(16), RootNum: rootNum, RootParent: fmt.Sprintf("%dz", rootNum-1),
			SkipNums: r.Intn(3) == 0, ForkBias: []int{0, 1, 2, 3}[r.Intn(4)], LibPolicy: []int{0, 0, 1, 2}[r.Intn(4)]}
		t := genTree(r, to)
		all := append([]TBlock{t.Root}, t.Blocks...)
		sort.SliceStable(all, func(a, b int) bool { return all[a].Num < all[b].Num })
		c := hrCase{kept: []int{0, 1, 5, 100, 100}[r.Intn(5)], nofiles: r.Intn(6) == 0}
		if r.Intn(4) == 0 {
			c.fsb = rootNum + uint64(r.Intn(3))
		}
		// one-block files exist up to some height (sometimes with a hole); everything else arrives live, in arrival order
		cut := all[r.Intn(len(all))].Num
		hole := uint64(0)
		if r.Intn(4) == 0 {
			hole = all[r.Intn(len(all))].Num
			o.Stat("hubready.hole_in_files", 1)
		}
		inFiles := map[string]bool{}
		for _, b := range all {
			if b.Num <= cut && b.Num != hole {
				c.files = append(c.files, b)
				inFiles[b.ID] = true
			}
		}
		for _, b := range arrival(r, append([]TBlock{t.Root}, t.Blocks...), []int{0, 0, 1}[r.Intn(3)]) {
			if !inFiles[b.ID] || r.Intn(6) == 0 { // some blocks come both ways
				c.live = append(c.live, b)
			}
		}
		if len(c.live) == 0 {
			continue
		}
		if c.nofiles {
			o.Stat("hubready.no_one_block_source", 1)
		}
		// requests to the hub's block stream server once the history is in: bursts around the window, beyond the head,
		// huge, "from the LIB" (-1) and "from block n" (-n, n within the chain: an empty snapshot has no first block to wait for)
		top := all[len(all)-1].Num
		for k := r.Intn(4); k > 0; k-- {
			var burst int64
			switch r.Intn(7) {
			case 0:
				burst = int64(r.Intn(4))
			case 1:
				burst = int64(r.Intn(int(top) + 3))
			case 2:
				burst = int64(top) + int64(r.Intn(6))
			case 3:
				burst = int64(1) << uint(20+r.Intn(42))
			case 4:
				burst = -1
			default:
				burst = -int64(2 + r.Intn(int(top)))
				if uint64(-burst) > rootNum+2 && r.Intn(2) == 0 {
					burst = -int64(rootNum + uint64(r.Intn(int(top-rootNum)+1)))
					if burst > -2 {
						burst = -2
					}
				}
			}
			c.bursts = append(c.bursts, burst)
			o.Stat("hubready.blockstream_requests", 1)
		}
		runHubReadyCase(o, c)
	}
}

func replayHubReady(o *Out, lines []string) {
	var c hrCase
	open := false
	flush := func() {
		if open {
			runHubReadyCase(o, c)
		}
		c, open = hrCase{}, false
	}
	for _, l := range lines {
		ws := strings.Fields(l)
		if len(ws) == 0 {
			continue
		}
		switch ws[0] {
		case "case":
			flush()
			open = true
			fmt.Sscan(ws[3], &c.kept)
			fmt.Sscan(ws[4], &c.fsb)
			c.nofiles = ws[5] == "1"
		case "file":
			bu := parseBundleLine([]string{"bundle", "0", ws[1]})
			c.files = append(c.files, bu.blocks[0])
		case "op":
			if len(ws) >= 3 && ws[1] == "live" {
				bu := parseBundleLine([]string{"bundle", "0", ws[2]})
				c.ops = append(c.ops, hrOp{blk: bu.blocks[0]})
			}
			if len(ws) >= 3 && ws[1] == "bsblocks" {
				var burst int64
				fmt.Sscan(ws[2], &burst)
				c.ops = append(c.ops, hrOp{bs: true, burst: burst})
			}
		case "end":
			flush()
		}
	}
	flush()
}
