package main

// splitmix64: every random choice of a run derives from one seed, so a disagreement replays exactly.
type Rng struct{ s uint64 }

func NewRng(seed uint64) *Rng { return &Rng{s: seed*0x9E3779B97F4A7C15 + 0x1234567} }

func (r *Rng) U64() uint64 {
	r.s += 0x9E3779B97F4A7C15
	z := r.s
	z = (z ^ (z >> 30)) * 0xBF58476D1CE4E5B9
	z = (z ^ (z >> 27)) * 0x94D049BB133111EB
	return z ^ (z >> 31)
}
func (r *Rng) Intn(n int) int {
	if n <= 0 {
		return 0
	}
	return int(r.U64() % uint64(n))
}
func (r *Rng) Bool() bool        { return r.U64()&1 == 1 }
func (r *Rng) Chance(p, q int) bool { return r.Intn(q) < p }
func (r *Rng) Fork() *Rng        { return NewRng(r.U64()) }

// boundary pool for 64-bit heights
var pool64 = []uint64{0, 1, 2, 3, 4, 5, 9, 10, 11, 99, 100, 101, 1<<31 - 1, 1 << 31, 1<<31 + 1, 1<<32 - 1, 1 << 32, 1<<32 + 1,
	1<<63 - 1, 1 << 63, 1<<63 + 1, ^uint64(0) - 11, ^uint64(0) - 10, ^uint64(0) - 5, ^uint64(0) - 2, ^uint64(0) - 1, ^uint64(0)}

func (r *Rng) Height() uint64 {
	switch r.Intn(10) {
	case 0, 1, 2:
		return pool64[r.Intn(len(pool64))]
	case 3, 4, 5, 6:
		return uint64(r.Intn(200))
	case 7:
		return pool64[r.Intn(len(pool64))] + uint64(r.Intn(7)) - 3
	default:
		return r.U64() >> uint(r.Intn(64))
	}
}
