package main

import (
	"fmt"
	"strings"
	"time"

	"github.com/streamingfast/bstream"
	"github.com/streamingfast/bstream/forkable"
	pbbstream "github.com/streamingfast/bstream/pb/sf/bstream/v1"
	"google.golang.org/protobuf/types/known/timestamppb"
)

func init() {
	suites["gates"] = suiteGates
	replaySuites["gates"] = replayGates
}

type gev struct {
	id   string
	num  uint64
	step int
	age  int64
}

func idt(s string) string {
	if s == "" {
		return "-"
	}
	return s
}

func (e gev) block() *pbbstream.Block {
	return &pbbstream.Block{Id: e.id, Number: e.num, ParentId: "p", Timestamp: timestamppb.New(time.Now().Add(-time.Duration(e.age) * time.Second))}
}
func (e gev) obj() interface{} {
	r := bstream.NewBlockRef(e.id, e.num)
	return forkable.VerifNewForkableObject(bstream.StepType(e.step), r, r, r, nil)
}

// runGateCase executes one case (header words after the case number, events) against the real gates.
func runGateCase(o *Out, hdr []string, evs []gev) {
	o.Case(hdr[0], toIface(hdr[1:])...)
	oldFSB := bstream.GetProtocolFirstStreamableBlock
	defer func() { bstream.GetProtocolFirstStreamableBlock = oldFSB }()
	fwd := 0
	h := bstream.HandlerFunc(func(blk *pbbstream.Block, obj interface{}) error { fwd++; return nil })
	var proc func(e gev) string
	switch hdr[0] {
	case "gates":
		kind, target := hdr[1], hdr[2]
		gt := bstream.GateExclusive
		if hdr[3] == "1" {
			gt = bstream.GateInclusive
		}
		var maxHold int
		fmt.Sscan(hdr[4], &maxHold)
		var fsb uint64
		fmt.Sscan(hdr[5], &fsb)
		bstream.GetProtocolFirstStreamableBlock = fsb
		tid := target
		if tid == "-" {
			tid = ""
		}
		var tnum uint64
		fmt.Sscan(target, &tnum)
		var g bstream.Handler
		switch kind {
		case "num":
			gg := bstream.NewBlockNumGate(tnum, gt, h)
			gg.MaxHoldOff = maxHold
			g = gg
		case "id":
			gg := bstream.NewBlockIDGate(tid, gt, h)
			gg.MaxHoldOff = maxHold
			g = gg
		case "irrnum":
			gg := forkable.NewIrreversibleBlockNumGate(tnum, gt, h)
			gg.MaxHoldOff = maxHold
			g = gg
		case "irrid":
			gg := forkable.NewIrreversibleBlockIDGate(tid, gt, h)
			gg.MaxHoldOff = maxHold
			g = gg
		case "realtime":
			var tol int64
			fmt.Sscan(target, &tol)
			g = bstream.NewRealtimeGate(time.Duration(tol)*time.Second, h)
		}
		proc = func(e gev) string {
			before := fwd
			err := g.ProcessBlock(e.block(), e.obj())
			r := "ok"
			if err != nil {
				if strings.Contains(err.Error(), "held off") {
					r = "errhold"
				} else {
					r = "err"
				}
			}
			return fmt.Sprintf("%s %d", r, fwd-before)
		}
	case "gator":
		var g bstream.Gator
		if hdr[1] == "num" {
			var t uint64
			fmt.Sscan(hdr[2], &t)
			if hdr[3] == "1" {
				g = bstream.NewExclusiveBlockNumberGator(t)
			} else {
				g = bstream.NewBlockNumberGator(t)
			}
		} else {
			var tol int64
			fmt.Sscan(hdr[2], &tol)
			g = bstream.NewTimeThresholdGator(time.Duration(tol) * time.Second)
		}
		proc = func(e gev) string { return fmt.Sprint(g.Pass(e.block())) }
	case "minfilter":
		var n uint64
		fmt.Sscan(hdr[1], &n)
		g := bstream.NewMinimalBlockNumFilter(n, h)
		proc = func(e gev) string {
			before := fwd
			g.ProcessBlock(e.block(), e.obj())
			return fmt.Sprint(fwd - before)
		}
	case "tripper":
		var tol int64
		fmt.Sscan(hdr[1], &tol)
		trips := 0
		g := bstream.NewRealtimeTripper(time.Duration(tol)*time.Second, func() { trips++ }, h)
		proc = func(e gev) string {
			before := fwd
			g.ProcessBlock(e.block(), e.obj())
			return fmt.Sprintf("%d %d", fwd-before, trips)
		}
	}
	for _, e := range evs {
		o.Op("ev %s %d %d %d", idt(e.id), e.num, e.step, e.age)
		o.Impl("%s", safely(func() string { return proc(e) }))
	}
	o.End()
}

func toIface(ss []string) []interface{} {
	r := make([]interface{}, len(ss))
	for i, s := range ss {
		r[i] = s
	}
	return r
}

const zeros64 = "0000000000000000000000000000000000000000000000000000000000000000"

func genEvents(r *Rng, n int, target uint64, tid string) []gev {
	evs := make([]gev, 0, n)
	base := uint64(r.Intn(4))
	if r.Intn(3) == 0 && target > 3 {
		base = target - uint64(r.Intn(4))
	}
	if r.Intn(12) == 0 {
		base = (uint64(1) << 63) + uint64(r.Intn(100)) // heights are uint64: also far above a small target
	}
	num := base
	steps := []int{1, 1, 1, 2, 16, 16, 17, 32}
	ids := []string{"a", "b", "c", "d", "e", "f", tid, tid, ""}
	for i := 0; i < n; i++ {
		e := gev{num: num, step: steps[r.Intn(len(steps))], age: 1000000}
		e.id = ids[r.Intn(len(ids))] + fmt.Sprint(r.Intn(3))
		if r.Intn(5) == 0 {
			e.id = tid
		}
		if r.Intn(4) == 0 {
			e.age = -1000000 // a block "from the future": within any tolerance
		}
		evs = append(evs, e)
		switch r.Intn(6) {
		case 0: // same number again (other step / fork)
		case 1:
			if num < ^uint64(0)-8 {
				num += uint64(1 + r.Intn(3))
			}
		case 2:
			if num > 0 && r.Bool() {
				num--
			}
		default:
			if num < ^uint64(0)-8 {
				num++
			}
		}
	}
	return evs
}

func suiteGates(o *Out, r *Rng, n int, tier string) {
	for i := 0; i < n; i++ {
		nev := 1 + r.Intn(14)
		target := uint64(r.Intn(12))
		if r.Intn(10) == 0 { // a target no block is near: "never" sentinels and heights in the upper half of uint64
			target = []uint64{^uint64(0), (uint64(1) << 63) + 100, uint64(1) << 63, (uint64(1) << 63) - 1, ^uint64(0) - 3}[r.Intn(5)]
			o.Stat("gates.target_in_the_upper_half_of_uint64", 1)
		}
		tids := []string{"a1", "b0", "c2", "", zeros64, "zz", "d1"}
		tid := tids[r.Intn(len(tids))]
		incl := fmt.Sprint(r.Intn(2))
		mh := []int{0, 0, 1, 2, 3, 5, 15000}[r.Intn(7)]
		fsb := []uint64{0, 1, 2, 2, 3}[r.Intn(5)]
		evs := genEvents(r, nev, target, tid)
		switch k := r.Intn(12); k {
		case 0, 1:
			o.Stat("gates.kind.num", 1)
			runGateCase(o, []string{"gates", "num", fmt.Sprint(target), incl, fmt.Sprint(mh), fmt.Sprint(fsb)}, evs)
		case 2, 3:
			o.Stat("gates.kind.id", 1)
			runGateCase(o, []string{"gates", "id", idt(tid), incl, fmt.Sprint(mh), fmt.Sprint(fsb)}, evs)
		case 4, 5:
			o.Stat("gates.kind.irrnum", 1)
			runGateCase(o, []string{"gates", "irrnum", fmt.Sprint(target), incl, fmt.Sprint(mh), fmt.Sprint(fsb)}, evs)
		case 6, 7:
			o.Stat("gates.kind.irrid", 1)
			runGateCase(o, []string{"gates", "irrid", idt(tid), incl, fmt.Sprint(mh), fmt.Sprint(fsb)}, evs)
		case 8:
			o.Stat("gates.kind.realtime", 1)
			runGateCase(o, []string{"gates", "realtime", "3600", "1", "0", fmt.Sprint(fsb)}, evs)
		case 9:
			o.Stat("gates.kind.gator", 1)
			if r.Bool() {
				runGateCase(o, []string{"gator", "num", fmt.Sprint(target), incl}, evs)
			} else {
				runGateCase(o, []string{"gator", "time", "3600", "0"}, evs)
			}
		case 10:
			o.Stat("gates.kind.minfilter", 1)
			runGateCase(o, []string{"minfilter", fmt.Sprint(target)}, evs)
		default:
			o.Stat("gates.kind.tripper", 1)
			runGateCase(o, []string{"tripper", "3600"}, evs)
		}
	}
}

func replayGates(o *Out, lines []string) {
	var hdr []string
	var evs []gev
	flush := func() {
		if hdr != nil {
			runGateCase(o, hdr, evs)
		}
		hdr, evs = nil, nil
	}
	for _, l := range lines {
		ws := strings.Fields(l)
		if len(ws) == 0 {
			continue
		}
		switch ws[0] {
		case "case":
			flush()
			hdr = ws[2:]
		case "op":
			if len(ws) == 6 && ws[1] == "ev" {
				var e gev
				e.id = ws[2]
				if e.id == "-" {
					e.id = ""
				}
				fmt.Sscan(ws[3], &e.num)
				fmt.Sscan(ws[4], &e.step)
				fmt.Sscan(ws[5], &e.age)
				evs = append(evs, e)
			}
		case "end":
			flush()
		}
	}
	flush()
}
