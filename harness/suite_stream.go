package main

import (
	"context"
	"errors"
	"fmt"
	"io"
	"sort"
	"strings"
	"sync"
	"time"

	"github.com/streamingfast/bstream"
	"github.com/streamingfast/bstream/forkable"
	"github.com/streamingfast/bstream/hub"
	pbbstream "github.com/streamingfast/bstream/pb/sf/bstream/v1"
	"github.com/streamingfast/bstream/stream"
	"github.com/streamingfast/dstore"
)

func init() {
	suites["stream"] = suiteStream
	replaySuites["stream"] = replayStream
}

type hubPush struct {
	b    TBlock
	when string // before | after:<k> | idle
}

type stCase struct {
	start   int64
	stop    uint64
	mode    string // num | from | through
	final   bool
	custom  int // -1 = none
	bs      uint64
	kept    int
	fsb     uint64
	bundles []fsBundle
	forks   []rsFork
	cur     *curRec
	pushes  []hubPush
	failNum uint64 // the user handler fails on the block with this number (0 = never)
}

func runStreamCase(o *Out, c stCase) {
	old := bstream.GetProtocolFirstStreamableBlock
	bstream.GetProtocolFirstStreamableBlock = c.fsb
	defer func() { bstream.GetProtocolFirstStreamableBlock = old }()
	cust := "-"
	if c.custom >= 0 {
		cust = fmt.Sprint(c.custom)
	}
	o.Case("stream", c.start, c.stop, c.mode, b2i(c.final), cust, c.bs, c.kept, c.fsb)
	for _, bu := range c.bundles {
		bundleLine(o, bu)
	}
	forked := dstore.NewMockStore(nil)
	for _, f := range c.forks {
		if !f.present {
			continue
		}
		o.Line("fork %s %d", blk4(f.b), b2i(f.readable))
		if f.readable {
			forked.SetFile(bstream.BlockFileName(filePB(f.b)), bundleBytes([]TBlock{f.b}))
		} else {
			forked.SetFile(bstream.BlockFileName(filePB(f.b)), []byte("garbage that is not dbin"))
		}
	}
	if c.failNum != 0 {
		o.Line("failnum %d", c.failNum)
	}
	if c.cur != nil {
		o.Line("cursor %s %s %s %s", c.cur.step, c.cur.blk, c.cur.head, c.cur.lib)
	}
	for _, p := range c.pushes {
		o.Line("hub %s %s", blk4(p.b), p.when)
	}
	o.Op("run")

	// ---- the real hub, bootstrapped through one one-block pass
	lsf := bstream.NewTestSourceFactory()
	obsf := bstream.NewTestSourceFactory()
	fh := hub.NewForkableHub(lsf.NewSource, bstream.SourceFromNumFactory(obsf.SourceFromBlockNum), c.kept)
	go fh.Run()
	ls := <-lsf.Created
	var before []hubPush
	var pending []hubPush // not yet handed to the hub, in list order
	var pmu sync.Mutex
	lateBoot := -1 // >= 0: the hub is bootstrapped only inside the handler of that delivery (or when the stream goes quiet)
	for _, p := range c.pushes {
		if p.when == "before" {
			before = append(before, p)
		} else if strings.HasPrefix(p.when, "boot:") {
			before = append(before, p)
			fmt.Sscanf(p.when, "boot:%d", &lateBoot)
		} else {
			pending = append(pending, p)
		}
	}
	// take removes and returns the pending pushes selected by pick (all with that tag, or the first one when tag == "")
	take := func(tag string) []TBlock {
		pmu.Lock()
		defer pmu.Unlock()
		var out []TBlock
		var keep []hubPush
		for i, p := range pending {
			if (tag == "" && i == 0) || (tag != "" && p.when == tag) {
				out = append(out, p.b)
			} else {
				keep = append(keep, p)
			}
		}
		pending = keep
		return out
	}
	booted := false
	var bootMu sync.Mutex
	boot := func() {
		bootMu.Lock()
		defer bootMu.Unlock()
		if booted || len(before) == 0 {
			booted = true
			return
		}
		booted = true
		passDone := make(chan struct{})
		go func() {
			defer close(passDone)
			select {
			case obs := <-obsf.Created:
				for _, p := range before[:len(before)-1] {
					obs.Push(p.b.pb(), nil)
				}
				obs.Shutdown(io.EOF)
			case <-time.After(2 * time.Second):
			}
		}()
		ls.Push(before[len(before)-1].b.pb(), nil)
		<-passDone
	}
	if lateBoot < 0 {
		boot()
	}
	if lateBoot >= 0 && len(before) > 0 {
		// pre-flight on a throw-away hub: a bootstrap that would not make the hub ready is not a case of this suite
		lsf2 := bstream.NewTestSourceFactory()
		obsf2 := bstream.NewTestSourceFactory()
		fh2 := hub.NewForkableHub(lsf2.NewSource, bstream.SourceFromNumFactory(obsf2.SourceFromBlockNum), c.kept)
		go fh2.Run()
		ls2 := <-lsf2.Created
		pd := make(chan struct{})
		go func() {
			defer close(pd)
			select {
			case obs := <-obsf2.Created:
				for _, p := range before[:len(before)-1] {
					obs.Push(p.b.pb(), nil)
				}
				obs.Shutdown(io.EOF)
			case <-time.After(2 * time.Second):
			}
		}()
		ls2.Push(before[len(before)-1].b.pb(), nil)
		<-pd
		ok := fh2.IsReady()
		fh2.Shutdown(nil)
		if !ok {
			o.Impl("send hub-not-ready")
			o.End()
			fh.Shutdown(nil)
			return
		}
	}
	if lateBoot < 0 && !fh.IsReady() {
		o.Impl("send hub-not-ready")
		o.End()
		fh.Shutdown(nil)
		return
	}

	// ---- the stream
	var mu sync.Mutex
	count := 0
	last := time.Now()
	h := bstream.HandlerFunc(func(blk *pbbstream.Block, obj interface{}) error {
		mu.Lock()
		o.Impl("%s", cursorableLine(blk, obj))
		if c.failNum != 0 && blk.Number == c.failNum {
			last = time.Now()
			mu.Unlock()
			return errInjectedHandler
		}
		k := count
		count++
		last = time.Now()
		mu.Unlock()
		if lateBoot >= 0 && k == lateBoot {
			boot() // the hub comes up while the stream is in the middle of its file phase
		}
		for _, b := range take(fmt.Sprintf("after:%d", k)) {
			ls.Push(b.pb(), nil)
		}
		mu.Lock()
		last = time.Now()
		mu.Unlock()
		return nil
	})
	merged := mergedStore(c.bundles, nil)
	var opts []stream.Option
	if c.stop != 0 {
		opts = append(opts, stream.WithStopBlock(c.stop))
	}
	if c.final {
		opts = append(opts, stream.WithFinalBlocksOnly())
	}
	if c.custom >= 0 {
		opts = append(opts, stream.WithCustomStepTypeFilter(bstream.StepType(c.custom)))
	}
	if c.cur != nil && c.mode == "from" {
		opts = append(opts, stream.WithCursor(c.cur.cursor()))
	}
	if c.cur != nil && c.mode == "through" {
		opts = append(opts, stream.WithTargetCursor(c.cur.cursor()))
	}
	st := stream.New(forked, merged, fh, c.start, h, opts...)
	ctx, cancel := context.WithCancel(context.Background())
	done := make(chan error, 1)
	go func() {
		defer func() {
			if e := recover(); e != nil {
				done <- fmt.Errorf("panic: %v", e)
			}
		}()
		done <- st.Run(ctx)
	}()
	// feeder: the hub keeps growing while the stream has nothing to deliver
	stuck := false
	var runErr error
	deadline := time.Now().Add(20 * time.Second)
	// "quiet" means the stream has nothing more to deliver; on a loaded machine a slow stream looks quiet, so the
	// threshold grows with the scheduling delay measured on this very loop (an 8 ms timer that fires late)
	tick := time.Now()
	quietAfter := 60 * time.Millisecond
loop:
	for {
		tick = time.Now()
		select {
		case runErr = <-done:
			break loop
		case <-time.After(8 * time.Millisecond):
			late := time.Since(tick) - 8*time.Millisecond
			if want := 60*time.Millisecond + 25*late; want > quietAfter {
				quietAfter = want
				if quietAfter > 1500*time.Millisecond {
					quietAfter = 1500 * time.Millisecond
				}
			} else if quietAfter > 60*time.Millisecond {
				quietAfter -= (quietAfter - 60*time.Millisecond) / 8 // decay when the machine calms down
			}
			mu.Lock()
			quiet := time.Since(last) > quietAfter
			mu.Unlock()
			if !quiet {
				continue
			}
			bootMu.Lock()
			needBoot := !booted
			bootMu.Unlock()
			if needBoot {
				boot()
				mu.Lock()
				last = time.Now()
				mu.Unlock()
				continue
			}
			if next := take(""); len(next) > 0 {
				ls.Push(next[0].pb(), nil)
				mu.Lock()
				last = time.Now()
				mu.Unlock()
			} else {
				stuck = true
				cancel()
				select {
				case runErr = <-done:
				case <-time.After(5 * time.Second):
					runErr = errors.New("hang")
				}
				break loop
			}
			if time.Now().After(deadline) {
				runErr = errors.New("hang")
				break loop
			}
		}
	}
	cancel()
	res := "nil"
	var inv *stream.ErrInvalidArg
	switch {
	case stuck && (runErr == nil || errors.Is(runErr, context.Canceled)):
		res = "stuck"
	case runErr == nil:
		res = "nil"
	case errors.Is(runErr, errInjectedHandler):
		res = "handlererr"
	case errors.Is(runErr, stream.ErrStopBlockReached):
		res = "stop"
	case errors.As(runErr, &inv):
		res = "invalidarg"
	case strings.Contains(runErr.Error(), "hang"):
		res = "hang"
	case strings.Contains(runErr.Error(), "panic"):
		res = "panic"
	case strings.Contains(runErr.Error(), "non-sequential"):
		res = "fileerr:nonseq"
	case strings.Contains(runErr.Error(), "downloading one-block-file"):
		res = "fileerr:download"
	case strings.Contains(runErr.Error(), "not implemented"):
		res = "fileerr:notimpl"
	case strings.Contains(runErr.Error(), "cannot run joining_source"):
		res = "notfound"
	default:
		res = "other:" + strings.ReplaceAll(runErr.Error(), " ", "_")
	}
	mu.Lock()
	o.Impl("send %s", res)
	mu.Unlock()
	o.End()
	fh.Shutdown(nil)
}

var errInjectedHandler = errors.New("injected handler failure (stream)")

func suiteStream(o *Out, r *Rng, n int, tier string) {
	scratch := func(blocks []TBlock, opts ...forkable.Option) (*forkable.Forkable, []curRec) {
		var evs []curRec
		idx := 0
		h := bstream.HandlerFunc(func(blk *pbbstream.Block, obj interface{}) error {
			w := strings.Fields(evLine(blk, obj))
			evs = append(evs, curRec{idx: idx, step: w[1], blk: w[2] + ":" + w[3], head: w[4], lib: w[5]})
			idx++
			return nil
		})
		p := forkable.New(h, opts...)
		for _, b := range blocks {
			p.ProcessBlock(b.pb(), nil)
		}
		return p, evs
	}
	libOf := func(evs []curRec) uint64 {
		lib := uint64(0)
		for _, e := range evs {
			if e.step == "irr" {
				lib = parseRefTok(e.blk).Num()
			}
		}
		return lib
	}
	for i := 0; i < n; i++ {
		// streams always read merged files with the default bundle size (100): the chain crosses one bundle boundary
		rootNum := uint64(100*r.Intn(3) + 78 + r.Intn(18))
		boundary := (rootNum/100 + 1) * 100
		to := TreeOpts{N: 22 + r.Intn(16), RootNum: rootNum, RootParent: fmt.Sprintf("%dz", rootNum-1),
			SkipNums: r.Intn(3) == 0, ForkBias: []int{0, 1, 2, 3}[r.Intn(4)], LibPolicy: []int{0, 0, 1, 2}[r.Intn(4)]}
		t := genTree(r, to)
		L := append([]TBlock{t.Root}, arrival(r, t.Blocks, 3)...)
		c := stCase{custom: -1, kept: []int{100, 100, 100, 0, 1, 2, 3, 5}[r.Intn(8)], bs: 100}
		// the final canonical chain
		endF, _ := scratch(L, forkable.WithExclusiveLIB(bstream.NewBlockRef(t.Root.ID, t.Root.Num)), forkable.WithKeptFinalBlocks(100000))
		_, headID, _, _, err := endF.HeadInfo()
		if err != nil {
			continue
		}
		all := map[string]TBlock{t.Root.ID: t.Root}
		for _, b := range t.Blocks {
			all[b.ID] = b
		}
		var chain []TBlock
		for id := headID; ; {
			b, ok := all[id]
			if !ok {
				break
			}
			chain = append([]TBlock{b}, chain...)
			if id == t.Root.ID {
				break
			}
			id = b.Parent
		}
		if len(chain) < 6 || chain[0].ID != t.Root.ID || chain[len(chain)-1].Num < boundary+2 {
			o.Stat("stream.skipped_chain_does_not_cross_boundary", 1)
			continue
		}
		onChain := map[string]bool{}
		for _, b := range chain {
			onChain[b.ID] = true
		}
		// merged files hold complete bundles only: every canonical block below the boundary
		var fileChain []TBlock
		for _, b := range chain {
			if b.Num < boundary {
				fileChain = append(fileChain, b)
			}
		}
		lastFile := fileChain[len(fileChain)-1].Num
		// t0: the hub has been bootstrapped and its LIB has reached the end of the merged files
		i0 := -1
		for k := 3; k < len(L)-2; k++ {
			_, ev := scratch(L[:k+1], forkable.HoldBlocksUntilLIB(), forkable.WithKeptFinalBlocks(c.kept))
			if libOf(ev) >= lastFile {
				i0 = k + []int{0, 0, 1, 2}[r.Intn(4)]
				if i0 > len(L)-2 {
					i0 = len(L) - 2
				}
				break
			}
		}
		if i0 < 0 || L[i0].Lib < t.Root.Num {
			o.Stat("stream.skipped_no_bootstrap_point", 1)
			continue
		}
		hub0, evs0 := scratch(L[:i0+1], forkable.HoldBlocksUntilLIB(), forkable.WithKeptFinalBlocks(c.kept))
		lowest0, lib0 := hub0.LowestBlockNum(), libOf(evs0)
		if lib0 == 0 || lowest0 == 0 {
			o.Stat("stream.skipped_hub_without_lib", 1)
			continue
		}
		// files and hub must cover the chain: the hub's lowest block is at most the first block after the files
		firstAfter := uint64(0)
		for _, b := range chain {
			if b.Num >= boundary {
				firstAfter = b.Num
				break
			}
		}
		if lowest0 > firstAfter {
			if r.Intn(4) != 0 {
				c.kept = 100
				hub0, evs0 = scratch(L[:i0+1], forkable.HoldBlocksUntilLIB(), forkable.WithKeptFinalBlocks(c.kept))
				lowest0, lib0 = hub0.LowestBlockNum(), libOf(evs0)
			} else {
				o.Stat("stream.gap_between_files_and_hub", 1)
			}
		}
		bootTag := "before"
		bootAt := -1
		if r.Intn(5) == 0 {
			bootAt = r.Intn(8)
			bootTag = fmt.Sprintf("boot:%d", bootAt) // the hub comes up during the stream's file phase
			o.Stat("stream.hub_bootstrapped_during_the_stream", 1)
		}
		for _, b := range L[:i0+1] {
			c.pushes = append(c.pushes, hubPush{b: b, when: bootTag})
		}
		c.bundles = layoutBundles(fileChain, 100)
		missProb := []int{0, 0, 0, 30}[r.Intn(4)]
		for id, b := range all {
			if !onChain[id] {
				c.forks = append(c.forks, rsFork{b: b, present: r.Intn(100) >= missProb, readable: true})
			}
		}
		sort.Slice(c.forks, func(i, j int) bool { return c.forks[i].b.ID < c.forks[j].b.ID })
		// the hub keeps growing during the stream
		for _, b := range L[i0+1:] {
			w := "idle"
			if r.Intn(2) == 0 {
				// live blocks reach the hub only once it has been bootstrapped
				w = fmt.Sprintf("after:%d", bootAt+1+r.Intn(14))
			}
			c.pushes = append(c.pushes, hubPush{b: b, when: w})
		}
		// stop block: in the files, on the bundle boundary, in the hub window, on a skipped number, near the end
		switch r.Intn(8) {
		case 0:
			c.stop = fileChain[r.Intn(len(fileChain))].Num
		case 1:
			c.stop = boundary - 1 + uint64(r.Intn(3))
		case 2:
			c.stop = chain[len(chain)-2].Num + 1
		case 3:
			c.stop = 0
		default:
			c.stop = chain[len(chain)-1-r.Intn(3)].Num
		}
		headNum0 := hub0.HeadNum()
		switch r.Intn(10) {
		case 0, 1, 2, 3:
			c.mode = "num"
			c.start = int64(chain[0].Num) + int64(r.Intn(int(headNum0-chain[0].Num)+1))
			o.Stat("stream.start.by_number", 1)
		case 4:
			c.mode = "num"
			c.start = -int64(r.Intn(int(headNum0-chain[0].Num) + 3))
			o.Stat("stream.start.negative", 1)
			// half of the time the stop block lies just below the block the negative start resolves to: the request is
			// invalid (start after stop), which only shows once the start has been resolved against the head
			if resolved := int64(headNum0) + c.start; r.Bool() && resolved > int64(chain[0].Num)+2 {
				c.stop = uint64(resolved) - 1 - uint64(r.Intn(2))
				o.Stat("stream.start.negative_resolving_above_the_stop_block", 1)
			}
		case 5:
			c.mode = "num"
			c.start = int64(c.stop) + int64(r.Intn(3)) // at or after the stop block
			o.Stat("stream.start.at_or_after_stop", 1)
		default:
			// the consumer got its cursor from a hub that had seen the history up to iX: usually the point at which this
			// hub is now (i0), sometimes later (this hub has not yet received the cursor's block or its fork: it can only
			// serve the cursor once they arrive, while the file phase is already under way)
			iX := i0
			if r.Intn(4) == 0 && len(L)-1 > i0 {
				iX = i0 + 1 + r.Intn(len(L)-1-i0)
				o.Stat("stream.start.cursor_from_a_hub_that_was_ahead", 1)
			}
			_, evsX := scratch(L[:iX+1], forkable.WithExclusiveLIB(bstream.NewBlockRef(t.Root.ID, t.Root.Num)), forkable.WithKeptFinalBlocks(100000))
			var cand []curRec
			for _, e := range evsX {
				if e.step == "new" || e.step == "undo" || (e.step == "irr" && r.Intn(2) == 0) {
					cand = append(cand, e)
				}
			}
			if len(cand) == 0 {
				continue
			}
			cr := cand[r.Intn(len(cand))]
			if r.Bool() { // prefer cursors on blocks that ended up forked out
				var fc []curRec
				for _, e := range cand {
					if !onChain[strings.Split(e.blk, ":")[0]] && e.step != "irr" {
						fc = append(fc, e)
					}
				}
				if len(fc) > 0 {
					cr = fc[r.Intn(len(fc))]
				}
			}
			if r.Bool() { // prefer cursors whose LIB is older than the hub window while their block is inside it
				var wc []curRec
				for _, e := range cand {
					if parseRefTok(e.lib).Num() < lowest0 && parseRefTok(e.blk).Num() >= lowest0 {
						wc = append(wc, e)
					}
				}
				if len(wc) > 0 {
					cr = wc[r.Intn(len(wc))]
					o.Stat("stream.start.cursor_lib_below_hub_window", 1)
				}
			}
			forceFrom := false
			if r.Intn(2) == 0 { // both at once: a forked-out block inside the hub window whose cursor LIB is older than the window
				// (the hub cannot serve the cursor: the fork is resolved from the files and the forked-blocks store, and the
				// undos are replayed at heights the hub could already serve by number)
				var fw []curRec
				for _, e := range cand {
					if !onChain[strings.Split(e.blk, ":")[0]] && e.step != "irr" &&
						parseRefTok(e.lib).Num() < lowest0 && parseRefTok(e.blk).Num() >= lowest0 {
						fw = append(fw, e)
					}
				}
				if len(fw) > 0 {
					cr = fw[r.Intn(len(fw))]
					forceFrom = r.Intn(4) != 0
					o.Stat("stream.start.forked_cursor_in_window_with_lib_below_it", 1)
				}
			}
			c.cur = &cr
			c.mode = "from"
			o.Stat("stream.start.cursor_"+cr.step, 1)
			if r.Intn(2) == 0 && !forceFrom {
				c.mode = "through"
				if r.Intn(4) != 0 { // prefer target cursors whose block the hub no longer retains (the files have to carry the stream past it)
					var bc []curRec
					for _, e := range cand {
						if parseRefTok(e.blk).Num() < lowest0 && onChain[strings.Split(e.blk, ":")[0]] {
							bc = append(bc, e)
						}
					}
					if len(bc) > 0 {
						cr = bc[r.Intn(len(bc))]
						c.cur = &cr
						o.Stat("stream.start.target_cursor_below_hub_window", 1)
					}
				}
				bn := parseRefTok(cr.blk).Num()
				lo := chain[0].Num
				if bn < lo {
					bn = lo
				}
				c.start = int64(lo + uint64(r.Intn(int(bn-lo)+1)))
				o.Stat("stream.start.through_cursor", 1)
			}
		}
		switch r.Intn(8) {
		case 0:
			c.final = true
			o.Stat("stream.filter.final_only", 1)
		case 1:
			c.custom = []int{1, 2, 16, 3, 19, 51, 32}[r.Intn(7)]
			o.Stat("stream.filter.custom", 1)
		}
		_ = lib0
		// fault injection (C11): the user handler fails on one block — on the stop block itself in half of the cases
		if r.Intn(4) == 0 {
			if c.stop != 0 && r.Intn(2) == 0 {
				c.failNum = c.stop
			} else {
				c.failNum = chain[r.Intn(len(chain))].Num
			}
			o.Stat("stream.handler_failure_injected", 1)
		}
		runStreamCase(o, c)
	}
}

func replayStream(o *Out, lines []string) {
	var c stCase
	open := false
	flush := func() {
		if open {
			runStreamCase(o, c)
		}
		c, open = stCase{}, false
	}
	for _, l := range lines {
		ws := strings.Fields(l)
		if len(ws) == 0 {
			continue
		}
		switch ws[0] {
		case "case":
			flush()
			open = true
			fmt.Sscan(ws[3], &c.start)
			fmt.Sscan(ws[4], &c.stop)
			c.mode = ws[5]
			c.final = ws[6] == "1"
			c.custom = -1
			if ws[7] != "-" {
				fmt.Sscan(ws[7], &c.custom)
			}
			fmt.Sscan(ws[8], &c.bs)
			fmt.Sscan(ws[9], &c.kept)
			fmt.Sscan(ws[10], &c.fsb)
		case "bundle":
			c.bundles = append(c.bundles, parseBundleLine(ws))
		case "fork":
			bu := parseBundleLine([]string{"bundle", "0", ws[1]})
			c.forks = append(c.forks, rsFork{b: bu.blocks[0], present: true, readable: ws[2] == "1"})
		case "cursor":
			c.cur = &curRec{step: ws[1], blk: ws[2], head: ws[3], lib: ws[4]}
		case "failnum":
			fmt.Sscan(ws[1], &c.failNum)
		case "hub":
			bu := parseBundleLine([]string{"bundle", "0", ws[1]})
			c.pushes = append(c.pushes, hubPush{b: bu.blocks[0], when: ws[2]})
		case "end":
			flush()
		}
	}
	flush()
}
