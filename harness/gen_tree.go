package main

import (
	"fmt"
	"time"

	pbbstream "github.com/streamingfast/bstream/pb/sf/bstream/v1"
	"google.golang.org/protobuf/types/known/timestamppb"
)

// TBlock is a block of a generated tree.
type TBlock struct {
	ID, Parent string
	Num, Lib   uint64
}

func (b TBlock) pb() *pbbstream.Block {
	return &pbbstream.Block{Id: b.ID, ParentId: b.Parent, Number: b.Num, LibNum: b.Lib,
		Timestamp: timestamppb.New(time.Unix(1600000000+int64(b.Num%1000000), 0))} // (heights may be anywhere in uint64: keep the time valid)
}

func tok(s string) string {
	if s == "" {
		return "-"
	}
	return s
}

type TreeOpts struct {
	N          int  // number of blocks besides the root
	RootNum    uint64
	RootParent string
	SkipNums   bool // heights may skip numbers
	Orphans    bool // blocks that never link
	Malformed  bool // LIB declarations that are not ancestor heights
	ForkBias   int  // 0..10: probability (x/10) to branch from a non-tip block
	LibPolicy  int  // 0 lagging, 1 jumping, 2 mixed per branch, 3 frozen
	RootOwnLib bool // the root declares its own height as LIB (first streamable block)
}

type Tree struct {
	Root   TBlock
	Blocks []TBlock // creation order: parents before children; excludes the root
	byID   map[string]TBlock
}

func (t *Tree) ancestorsHeights(b TBlock) []uint64 { // heights of ancestors (nearest first), down to the root
	var out []uint64
	cur := b
	for {
		p, ok := t.byID[cur.Parent]
		if !ok {
			return out
		}
		out = append(out, p.Num)
		cur = p
	}
}

func genTree(r *Rng, o TreeOpts) *Tree {
	t := &Tree{byID: map[string]TBlock{}}
	t.Root = TBlock{ID: fmt.Sprintf("%da", o.RootNum), Parent: o.RootParent, Num: o.RootNum, Lib: o.RootNum}
	if o.RootNum >= 1 && !o.RootOwnLib {
		t.Root.Lib = o.RootNum - 1 // an (unknown) ancestor below the root
	}
	t.byID[t.Root.ID] = t.Root
	all := []TBlock{t.Root}
	usedAt := map[uint64]int{o.RootNum: 1}
	tip := t.Root
	speed := map[string]int{} // per-branch finality lag (policy 2)
	// a quarter of the trees with skipped numbers are sparse (slot-like numbering: most blocks skip 1-4 heights), so that
	// a few blocks span more heights than any retention value
	sparse := o.SkipNums && r.Intn(4) == 0
	for i := 0; i < o.N; i++ {
		var parent TBlock
		if r.Intn(10) < o.ForkBias {
			parent = all[r.Intn(len(all))]
		} else if r.Intn(4) == 0 {
			// extend some other recent block
			k := len(all) - 1 - r.Intn(min(4, len(all)))
			parent = all[k]
		} else {
			parent = tip
		}
		num := parent.Num + 1
		if sparse {
			if r.Intn(4) > 0 {
				num += uint64(1 + r.Intn(4))
			}
		} else if o.SkipNums && r.Intn(5) == 0 {
			num += uint64(1 + r.Intn(2))
		}
		letter := byte('a' + usedAt[num])
		usedAt[num]++
		b := TBlock{ID: fmt.Sprintf("%d%c", num, letter), Parent: parent.ID, Num: num}
		t.byID[b.ID] = b // provisional, for ancestor walk
		anc := t.ancestorsHeights(b)
		// candidate LIB heights: ancestor heights >= parent's declared lib (non-decreasing along the branch)
		var cands []uint64
		for _, h := range anc {
			if h >= parent.Lib {
				cands = append(cands, h)
			}
		}
		lib := parent.Lib
		if len(cands) > 0 {
			switch o.LibPolicy {
			case 0: // lagging k blocks
				k := 2 + r.Intn(2)
				if k < len(cands) {
					lib = cands[k]
				} else {
					lib = cands[len(cands)-1]
				}
			case 1: // mostly frozen, then jumps many blocks at once
				if r.Intn(4) == 0 {
					lib = cands[r.Intn(len(cands))]
				}
			case 2: // branches disagree on finality speed
				sp, ok := speed[parent.ID]
				if !ok {
					sp = 1 + r.Intn(4)
				}
				speed[b.ID] = sp
				if sp < len(cands) {
					lib = cands[sp]
				} else {
					lib = cands[len(cands)-1]
				}
			default:
			}
		}
		if lib < parent.Lib {
			lib = parent.Lib
		}
		if o.Malformed && r.Intn(4) == 0 {
			lib = uint64(r.Intn(int(num) + 2))
		}
		b.Lib = lib
		t.byID[b.ID] = b
		t.Blocks = append(t.Blocks, b)
		all = append(all, b)
		if b.Num > tip.Num || (b.Num == tip.Num && r.Intn(3) == 0) {
			tip = b
		}
	}
	if o.Orphans {
		for i, n := 0, 1+r.Intn(2); i < n; i++ {
			num := o.RootNum + uint64(1+r.Intn(o.N+1))
			if r.Intn(3) == 0 {
				num = o.RootNum // a dead-fork sibling of the root itself: same height as the starting LIB, another id
			}
			letter := byte('a' + usedAt[num])
			usedAt[num]++
			b := TBlock{ID: fmt.Sprintf("%d%c", num, letter), Parent: fmt.Sprintf("%dz", num-1), Num: num, Lib: o.RootNum}
			pos := r.Intn(len(t.Blocks) + 1)
			t.Blocks = append(t.Blocks[:pos], append([]TBlock{b}, t.Blocks[pos:]...)...)
			t.byID[b.ID] = b
		}
	}
	return t
}

func min(a, b int) int {
	if a < b {
		return a
	}
	return b
}

// arrival orders
func arrival(r *Rng, blocks []TBlock, policy int) []TBlock {
	out := append([]TBlock(nil), blocks...)
	switch policy {
	case 0: // in creation (topological) order
	case 1: // shuffled within a window
		w := 2 + r.Intn(3)
		for i := 0; i+1 < len(out); i++ {
			j := i + r.Intn(min(w, len(out)-i))
			out[i], out[j] = out[j], out[i]
		}
	case 2: // full shuffle
		for i := len(out) - 1; i > 0; i-- {
			j := r.Intn(i + 1)
			out[i], out[j] = out[j], out[i]
		}
	case 3: // sorted by height (siblings arbitrary), the usual live order
		for i := 1; i < len(out); i++ {
			for j := i; j > 0 && out[j].Num < out[j-1].Num; j-- {
				out[j], out[j-1] = out[j-1], out[j]
			}
		}
	}
	return out
}

// withNoise inserts duplicates / re-feeds of earlier blocks
func withNoise(r *Rng, in []TBlock, p int) []TBlock {
	var out []TBlock
	for i, b := range in {
		out = append(out, b)
		if r.Intn(100) < p && i > 0 {
			out = append(out, in[r.Intn(i+1)])
		}
	}
	return out
}
