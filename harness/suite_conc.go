package main

import (
	"context"
	"net"
	"os"

	"github.com/streamingfast/bstream/blockstream"
	"google.golang.org/grpc"
	"github.com/streamingfast/shutter"
	"go.uber.org/zap"
	"errors"
	"fmt"
	"io"
	"strings"
	"sync"
	"sync/atomic"
	"time"

	"github.com/streamingfast/bstream"
	"github.com/streamingfast/bstream/hub"
	pbbstream "github.com/streamingfast/bstream/pb/sf/bstream/v1"
)

func init() {
	suites["hubsubs"] = suiteHubSubs
	replaySuites["hubsubs"] = func(o *Out, lines []string) { suiteHubSubs(o, NewRng(1), countCases(lines), "quick") }
	suites["shutdown"] = suiteShutdown
	replaySuites["shutdown"] = func(o *Out, lines []string) { suiteShutdown(o, NewRng(1), 1, "quick") }
}

func countCases(lines []string) int {
	n := 0
	for _, l := range lines {
		if strings.HasPrefix(l, "case ") {
			n++
		}
	}
	if n == 0 {
		n = 1
	}
	return n
}

func linearChain(first, last uint64) []TBlock {
	var out []TBlock
	for n := first; n <= last; n++ {
		lib := uint64(0)
		if n > first+2 {
			lib = n - 2
		}
		out = append(out, TBlock{ID: fmt.Sprintf("%da", n), Parent: fmt.Sprintf("%da", n-1), Num: n, Lib: lib})
	}
	return out
}

// pushSrc is a source that, like every real source, calls its handler from inside Run: Run cannot return while a
// handler call is in flight (a TestSource pushed from another goroutine does not have this property).
type pushSrc struct {
	*shutter.Shutter
	h      bstream.Handler
	blocks []TBlock
	gap    time.Duration
	before time.Duration      // pause before the first block
	after  func(p *pushSrc)   // called (inside Run) once every block was delivered
}

func newPushSrc(h bstream.Handler, blocks []TBlock) *pushSrc {
	return &pushSrc{Shutter: shutter.New(), h: h, blocks: blocks, gap: 200 * time.Microsecond}
}

func (p *pushSrc) SetLogger(*zap.Logger) {}

func (p *pushSrc) Run() {
	if p.before > 0 {
		time.Sleep(p.before)
	}
	for _, b := range p.blocks {
		if p.IsTerminating() {
			return
		}
		if err := p.h.ProcessBlock(b.pb(), nil); err != nil {
			p.Shutdown(err)
			return
		}
		time.Sleep(p.gap)
	}
	if p.after != nil && !p.IsTerminating() {
		p.after(p)
	}
	<-p.Terminating()
}

// newReadyHub returns a ready hub holding the linear chain first..head, and its live test source
func newReadyHub(first, head uint64, kept int) (*hub.ForkableHub, *bstream.TestSource) {
	lsf := bstream.NewTestSourceFactory()
	obsf := bstream.NewTestSourceFactory()
	fh := hub.NewForkableHub(lsf.NewSource, bstream.SourceFromNumFactory(obsf.SourceFromBlockNum), kept)
	go fh.Run()
	ls := <-lsf.Created
	chain := linearChain(first, head)
	done := make(chan struct{})
	go func() {
		defer close(done)
		select {
		case obs := <-obsf.Created:
			for _, b := range chain[:len(chain)-1] {
				obs.Push(b.pb(), nil)
			}
			obs.Shutdown(io.EOF)
		case <-time.After(2 * time.Second):
		}
	}()
	ls.Push(chain[len(chain)-1].pb(), nil)
	<-done
	return fh, ls
}

// ---------------------------------------------------------------------------------------------- C08

func suiteHubSubs(o *Out, r *Rng, n int, tier string) {
	for i := 0; i < n; i++ {
		k := 2 + r.Intn(15)
		first, head := uint64(1), uint64(20)
		concurrentFeed := uint64(5 + r.Intn(16))
		tail := uint64(3)
		final := head + concurrentFeed + tail
		mode := r.Intn(4) // 1: one subscriber never reads; 2: one subscriber reads late, but within its buffer
		neverReads := mode == 1
		lagReads := mode == 2
		if neverReads {
			tail = 130 // enough to overflow a subscriber that never reads (capacity 100 + burst)
			final = head + concurrentFeed + tail
		}
		if lagReads {
			// every live block gives the subscriber at most two events (New, and Irreversible for the block that
			// became final): the late reader has at most 2*(concurrentFeed+tail) = 100 events waiting — its buffer —,
			// whatever part of the concurrent feed went into its burst: it must not be terminated
			tail = 50 - concurrentFeed
			final = head + concurrentFeed + tail
		}
		flag := b2i(neverReads)
		if lagReads {
			flag = 2
		}
		o.Case("hubsubs", k, final, flag)
		fh, ls := newReadyHub(first, head, 100)
		if !fh.IsReady() {
			o.Impl("trial hub-not-ready")
			o.End()
			continue
		}
		type subRec struct {
			from uint64
			src  bstream.Source
			mu   sync.Mutex
			got  []uint64
			bad  bool // received an event without its block: no point pacing the feeder on it any more
		}
		subs := make([]*subRec, k)
		start := make(chan struct{})
		var wg sync.WaitGroup
		for j := 0; j < k; j++ {
			sr := &subRec{from: 5 + uint64(r.Intn(14))}
			subs[j] = sr
			wg.Add(1)
			go func(j int, sr *subRec) {
				defer wg.Done()
				<-start
				h := bstream.HandlerFunc(func(blk *pbbstream.Block, obj interface{}) error {
					if blk == nil || obj == nil { // an event without its block: recorded as height 0, breaks contiguity
						sr.mu.Lock()
						sr.got = append(sr.got, 0)
						sr.bad = true
						sr.mu.Unlock()
						return nil
					}
					if s, ok := obj.(bstream.Stepable); ok && s.Step().Matches(bstream.StepNew) {
						sr.mu.Lock()
						sr.got = append(sr.got, blk.Number)
						sr.mu.Unlock()
					}
					return nil
				})
				sr.src = fh.SourceFromBlockNum(sr.from, h)
			}(j, sr)
		}
		// the feeder runs concurrently with the subscription requests
		wg.Add(1)
		go func() {
			defer wg.Done()
			<-start
			for _, b := range linearChain(head+1, head+concurrentFeed) {
				ls.Push(b.pb(), nil)
			}
		}()
		close(start)
		wg.Wait()
		victim := -1
		for j, sr := range subs {
			if sr.src == nil {
				continue
			}
			if (neverReads || lagReads) && victim < 0 {
				victim = j // obtained but not run (yet): its channel fills up
				continue
			}
			go sr.src.Run()
		}
		// two more subscribers that never read, obtained one after the other with no hub event in between: they run out of
		// buffer on the very same event, and each of them must be dropped
		var extra []bstream.Source
		var extraFrom []uint64
		if neverReads && r.Intn(2) == 0 {
			nop := bstream.HandlerFunc(func(*pbbstream.Block, interface{}) error { return nil })
			hn := fh.HeadNum()
			if x := fh.SourceFromBlockNum(hn, nop); x != nil {
				extra, extraFrom = append(extra, x), append(extraFrom, hn)
			}
			if x := fh.SourceFromBlockNumWithForks(hn-2, nop); x != nil {
				extra, extraFrom = append(extra, x), append(extraFrom, hn-2)
			}
			o.Stat("hubsubs.two_more_never_reading_subscribers", 1)
		}
		caughtUp := func(num uint64) bool {
			for j, sr := range subs {
				if j == victim || sr.src == nil {
					continue
				}
				sr.mu.Lock()
				ok := sr.bad || (len(sr.got) > 0 && sr.got[len(sr.got)-1] >= num)
				sr.mu.Unlock()
				if !ok {
					return false
				}
			}
			return true
		}
		for _, b := range linearChain(head+concurrentFeed+1, final) {
			// the feeder must never be blocked by a subscriber (watchdog: a stuck feeder ends the run as a hang)
			pushed := make(chan struct{})
			go func(b TBlock) { ls.Push(b.pb(), nil); close(pushed) }(b)
			select {
			case <-pushed:
			case <-time.After(15 * time.Second):
				o.Op("sub 0 0")
				o.Impl("hub-feeder-blocked-while-pushing-block-%d", b.Num)
				o.End()
				o.Flush()
				os.Exit(3)
			}
			// pace the feeder: the reading subscribers must not fall behind by more than their buffer (that would
			// legitimately terminate them); only the one that never reads is meant to overflow
			for t := 0; t < 400 && !caughtUp(b.Num); t++ {
				time.Sleep(100 * time.Microsecond)
			}
		}
		if lagReads && victim >= 0 {
			go subs[victim].src.Run() // the late reader starts now: everything since its burst is still in its channel
			victim = -1
		}
		// wait for delivery to settle
		deadline := time.Now().Add(5 * time.Second)
		for time.Now().Before(deadline) {
			all := true
			for j, sr := range subs {
				if j == victim || sr.src == nil {
					continue
				}
				sr.mu.Lock()
				okk := sr.bad || (len(sr.got) > 0 && sr.got[len(sr.got)-1] == final)
				sr.mu.Unlock()
				if !okk {
					all = false
				}
			}
			if all {
				break
			}
			time.Sleep(5 * time.Millisecond)
		}
		for j, sr := range subs {
			o.Op("sub %d %d", j, sr.from)
			if sr.src == nil {
				o.Impl("sub %d nil", j)
				continue
			}
			if j == victim {
				dropped := sr.src.IsTerminating() && sr.src.Err() != nil
				o.Impl("sub %d dropped=%d", j, b2i(dropped))
				continue
			}
			sr.mu.Lock()
			contig := 1
			for x := 1; x < len(sr.got); x++ {
				if sr.got[x] != sr.got[x-1]+1 {
					contig = 0
				}
			}
			fst, lst := uint64(0), uint64(0)
			if len(sr.got) > 0 {
				fst, lst = sr.got[0], sr.got[len(sr.got)-1]
			}
			o.Impl("sub %d %d-%d/%d contiguous=%d", j, fst, lst, len(sr.got), contig)
			sr.mu.Unlock()
		}
		for x, src := range extra {
			o.Op("sub v%d %d", x, extraFrom[x])
			o.Impl("sub v%d dropped=%d", x, b2i(src.IsTerminating() && src.Err() != nil))
		}
		o.End()
		fh.Shutdown(nil)
	}
}

// ---------------------------------------------------------------------------------------------- C12

type handlerLog struct {
	mu        sync.Mutex
	active    int32
	overlap   int32
	calls     int
	late      int
	stopped   int32
	onCall    func(k int)
	failAtK   int
}

func (l *handlerLog) handler() bstream.Handler {
	return bstream.HandlerFunc(func(blk *pbbstream.Block, obj interface{}) error {
		if atomic.AddInt32(&l.active, 1) > 1 {
			atomic.StoreInt32(&l.overlap, 1)
		}
		defer atomic.AddInt32(&l.active, -1)
		l.mu.Lock()
		k := l.calls
		l.calls++
		if atomic.LoadInt32(&l.stopped) == 1 {
			l.late++
		}
		cb := l.onCall
		l.mu.Unlock()
		time.Sleep(200 * time.Microsecond)
		if cb != nil {
			cb(k)
		}
		if l.failAtK >= 0 && k == l.failAtK {
			return errors.New("injected handler failure")
		}
		return nil
	})
}

// finish waits for Run to return and for Terminated, then reports
func finish(o *Out, name string, src bstream.Source, runDone chan struct{}, l *handlerLog, inner []bstream.Source, extra string) {
	returned, terminated := 0, 0
	select {
	case <-runDone:
		returned = 1
	case <-time.After(4 * time.Second):
	}
	select {
	case <-src.Terminated():
		terminated = 1
	case <-time.After(2 * time.Second):
	}
	atomic.StoreInt32(&l.stopped, 1)
	time.Sleep(15 * time.Millisecond)
	innerDown := 1
	for _, in := range inner {
		if in != nil && !in.IsTerminating() {
			innerDown = 0
		}
	}
	l.mu.Lock()
	late := l.late
	l.mu.Unlock()
	o.Op("%s", name)
	o.Impl("%s returned=%d terminated=%d late=%d innerdown=%d overlap=%d%s", name, returned, terminated, late, innerDown, atomic.LoadInt32(&l.overlap), extra)
	if returned == 0 { // unblock leaked goroutines
		for _, in := range inner {
			if in != nil {
				in.Shutdown(nil)
			}
		}
	}
}

func suiteShutdown(o *Out, r *Rng, n int, tier string) {
	bstream.VerifSetRestartDelays(3*time.Millisecond, 3*time.Millisecond)
	for i := 0; i < n; i++ {
		o.Case("shutdown", i)
		// ---- joining source: Shutdown from inside each caller-supplied factory, before Run, during a handler call
		for _, where := range []string{"before-run", "in-live-factory", "in-file-factory", "in-join-factory", "in-handler", "async"} {
			l := &handlerLog{failAtK: -1}
			var js *bstream.JoiningSource
			var inner []bstream.Source
			var imu sync.Mutex
			mk := func(h bstream.Handler) *bstream.TestSource {
				ts := bstream.NewTestSource(h)
				imu.Lock()
				inner = append(inner, ts)
				imu.Unlock()
				return ts
			}
			liveCalls := 0
			lsf := bstream.NewTestSourceFactory()
			fsf := bstream.NewTestSourceFactory()
			lsf.LowestBlkNum = 5
			lsf.FromBlockNumFunc = func(num uint64, h bstream.Handler) bstream.Source {
				liveCalls++
				if liveCalls == 1 {
					if where == "in-live-factory" {
						js.Shutdown(errors.New("shutdown in live factory"))
						return mk(h)
					}
					return nil // not available yet: go to files
				}
				if where == "in-join-factory" {
					js.Shutdown(errors.New("shutdown in join"))
				}
				return mk(h)
			}
			fsf.FromBlockNumFunc = func(num uint64, h bstream.Handler) bstream.Source {
				if where == "in-file-factory" {
					js.Shutdown(errors.New("shutdown in file factory"))
				}
				// the file phase: blocks 2,3,4 then 5 triggers the join; delivered from inside the source's own Run
				fs := newPushSrc(h, linearChain(2, 6))
				imu.Lock()
				inner = append(inner, fs)
				imu.Unlock()
				return fs
			}
			if where == "in-handler" {
				l.onCall = func(k int) {
					if k == 1 {
						js.Shutdown(errors.New("shutdown in handler"))
					}
				}
			}
			js = bstream.NewJoiningSource(fsf, lsf, l.handler(), 2, nil, false, nopLog)
			if where == "before-run" {
				js.Shutdown(errors.New("shutdown before run"))
			}
			done := make(chan struct{})
			go func() { js.Run(); close(done) }()
			if where == "async" {
				go func() {
					time.Sleep(2 * time.Millisecond)
					js.Shutdown(errors.New("async shutdown"))
				}()
			}
			imu.Lock()
			in := append([]bstream.Source(nil), inner...)
			imu.Unlock()
			_ = in
			time.Sleep(20 * time.Millisecond)
			imu.Lock()
			in = append([]bstream.Source(nil), inner...)
			imu.Unlock()
			finish(o, "joining/"+where, js, done, l, in, "")
		}
		// ---- eternal source
		for _, where := range []string{"before-run", "in-factory-1", "in-factory-2", "in-handler", "during-restart-delay", "after-empty-source"} {
			l := &handlerLog{failAtK: -1}
			secondShape := uint64(r.Intn(3))
			var es *bstream.EternalSource
			var inner []bstream.Source
			var imu sync.Mutex
			calls := 0
			var refs []string
			factory := bstream.SourceFromRefFactory(func(ref bstream.BlockRef, h bstream.Handler) bstream.Source {
				calls++
				refs = append(refs, ref.ID())
				if (where == "in-factory-1" && calls == 1) || (where == "in-factory-2" && calls == 2) || (where == "after-empty-source" && calls == 3) {
					es.Shutdown(errors.New("shutdown in factory"))
				}
				// the inner source delivers two blocks from inside its own Run, then (first incarnation) fails so that the
				// eternal source restarts
				c := calls
				base := uint64(10 * c)
				// the second block of an incarnation is higher than the first, a fork sibling at the same height, or a block
				// of a shorter branch: the restart point is the last block *accepted*, whatever its height
				blocks := []TBlock{
					{ID: fmt.Sprintf("%da", base+1), Parent: "p", Num: base + 1},
					{ID: fmt.Sprintf("%da", base+2), Parent: fmt.Sprintf("%da", base+1), Num: base + 2 - secondShape}}
				if where == "after-empty-source" && c == 2 {
					blocks = nil // the second incarnation fails before it delivers anything
				}
				ps := newPushSrc(h, blocks)
				ps.before = time.Millisecond
				ps.after = func(p *pushSrc) {
					if where == "after-empty-source" && c == 2 {
						p.Shutdown(errors.New("inner failure before any block"))
					}
					if c == 1 {
						p.Shutdown(errors.New("inner failure"))
						if where == "during-restart-delay" {
							go func() {
								time.Sleep(time.Millisecond)
								es.Shutdown(errors.New("shutdown during restart delay"))
							}()
						}
					}
				}
				imu.Lock()
				inner = append(inner, ps)
				imu.Unlock()
				return ps
			})
			if where == "in-handler" {
				l.onCall = func(k int) {
					if k == 1 {
						es.Shutdown(errors.New("shutdown in handler"))
					}
				}
			}
			es = bstream.NewEternalSource(factory, l.handler())
			if where == "before-run" {
				es.Shutdown(errors.New("shutdown before run"))
			}
			done := make(chan struct{})
			go func() { es.Run(); close(done) }()
			// every scenario triggers the shutdown from inside (factory, handler, restart delay): wait for it — on a loaded
			// machine the second or third incarnation may take far longer than the restart delay to come up
			for t0 := time.Now(); !es.IsTerminating() && time.Since(t0) < 5*time.Second; {
				time.Sleep(2 * time.Millisecond)
			}
			if !es.IsTerminating() {
				es.Shutdown(errors.New("late shutdown"))
			}
			imu.Lock()
			in := append([]bstream.Source(nil), inner...)
			imu.Unlock()
			// restart from the last block the handler accepted
			extra := ""
			if len(refs) >= 2 {
				extra = " restartref=" + tok(refs[1])
			}
			if where == "after-empty-source" && len(refs) >= 3 {
				extra += " restartref3=" + tok(refs[2]) // the third incarnation still starts from the last block accepted
			}
			finish(o, "eternal/"+where, es, done, l, in, extra)
		}
		// ---- multiplexed source: serial handler calls, handler failure shuts all inner sources down
		for _, where := range []string{"handler-failure", "async", "in-factory", "single-reconnect"} {
			l := &handlerLog{failAtK: -1}
			if where == "handler-failure" {
				l.failAtK = 3
			}
			var ms *bstream.MultiplexedSource
			var inner []bstream.Source
			var imu sync.Mutex
			// the goroutines that play the inner sources' Run loops: their check-then-push is not atomic, so a call may
			// begin just after the shutdown; a handler call counts as late only once these loops have ended
			var pushers sync.WaitGroup
			nsrc := 2 + r.Intn(3)
			if where == "single-reconnect" {
				// one factory: the inner source dies during its own handler call, the reconnected incarnation delivers while
				// that call is still in flight — the two calls must still be serialised
				nsrc = 1
				l.onCall = func(k int) {
					if k == 0 {
						imu.Lock()
						first := inner[0]
						imu.Unlock()
						first.Shutdown(errors.New("inner source dies during its handler call"))
						for t0 := time.Now(); time.Since(t0) < 400*time.Millisecond; time.Sleep(time.Millisecond) {
							imu.Lock()
							n := len(inner)
							imu.Unlock()
							if n >= 2 {
								break
							}
						}
						time.Sleep(8 * time.Millisecond) // the replacement's first push is under way
					}
				}
			}
			var factories []bstream.SourceFactory
			for f := 0; f < nsrc; f++ {
				f := f
				factories = append(factories, func(h bstream.Handler) bstream.Source {
					if where == "in-factory" && f == 1 {
						go ms.Shutdown(errors.New("shutdown while connecting"))
					}
					ts := bstream.NewTestSource(h)
					imu.Lock()
					inner = append(inner, ts)
					imu.Unlock()
					pushers.Add(1)
					go func() {
						defer pushers.Done()
						for x := 0; x < 6; x++ {
							if ts.IsTerminating() {
								return
							}
							ts.Push(TBlock{ID: fmt.Sprintf("%d-%d", f, x), Parent: "p", Num: uint64(x + 1)}.pb(), nil)
						}
					}()
					return ts
				})
			}
			ms = bstream.NewMultiplexedSource(factories, l.handler())
			done := make(chan struct{})
			go func() { ms.Run(); close(done) }()
			time.Sleep(25 * time.Millisecond)
			if where == "async" {
				ms.Shutdown(errors.New("async shutdown"))
			}
			if !ms.IsTerminating() {
				time.Sleep(10 * time.Millisecond)
				ms.Shutdown(errors.New("late shutdown"))
			}
			select {
			case <-ms.Terminated():
			case <-time.After(2 * time.Second):
			}
			pdone := make(chan struct{})
			go func() { pushers.Wait(); close(pdone) }()
			select {
			case <-pdone:
			case <-time.After(500 * time.Millisecond): // an inner source that was not shut down keeps pushing: reported as innerdown=0
			}
			imu.Lock()
			in := append([]bstream.Source(nil), inner...)
			imu.Unlock()
			finish(o, "multiplexed/"+where, ms, done, l, in, "")
		}
		// ---- hub subscription
		for _, where := range []string{"before-run", "in-handler", "async"} {
			l := &handlerLog{failAtK: -1}
			fh, ls := newReadyHub(1, 12, 100)
			var src bstream.Source
			if where == "in-handler" {
				l.onCall = func(k int) {
					if k == 1 {
						src.Shutdown(errors.New("shutdown in handler"))
					}
				}
			}
			src = fh.SourceFromBlockNum(5, l.handler())
			if src == nil {
				o.Op("hubsub/" + where)
				o.Impl("hubsub/%s no-source", where)
				fh.Shutdown(nil)
				continue
			}
			if where == "before-run" {
				src.Shutdown(errors.New("shutdown before run"))
			}
			done := make(chan struct{})
			go func() { src.Run(); close(done) }()
			for _, b := range linearChain(13, 16) {
				ls.Push(b.pb(), nil)
			}
			if where == "async" {
				time.Sleep(3 * time.Millisecond)
				src.Shutdown(errors.New("async shutdown"))
			}
			finish(o, "hubsub/"+where, src, done, l, nil, "")
			fh.Shutdown(nil)
		}
		// ---- blockstream.Source: the gRPC client of a block stream server (a real in-process server on a loopback port;
		// "unreachable": nothing listens on the port, the source is still waiting for its endpoint when Shutdown comes)
		for _, where := range []string{"before-run", "unreachable", "in-handler", "async"} {
			l := &handlerLog{failAtK: -1}
			var src *blockstream.Source
			lis, err := net.Listen("tcp", "127.0.0.1:0")
			if err != nil {
				o.Op("grpc/" + where)
				o.Impl("grpc/%s no-loopback-listener", where)
				continue
			}
			addr := lis.Addr().String()
			var gs *grpc.Server
			var srv *blockstream.Server
			if where == "unreachable" {
				lis.Close()
			} else {
				gs = grpc.NewServer()
				srv = blockstream.NewUnmanagedServer()
				pbbstream.RegisterBlockStreamServer(gs, srv)
				go gs.Serve(lis)
			}
			if where == "in-handler" {
				l.onCall = func(k int) {
					if k == 1 {
						src.Shutdown(errors.New("shutdown in handler"))
					}
				}
			}
			src = blockstream.NewSource(context.Background(), addr, 0, l.handler(), blockstream.WithLogger(nopLog))
			if where == "before-run" {
				src.Shutdown(errors.New("shutdown before run"))
			}
			done := make(chan struct{})
			go func() { src.Run(); close(done) }()
			stopPush := make(chan struct{})
			if srv != nil {
				go func() {
					for x := uint64(1); ; x++ {
						select {
						case <-stopPush:
							return
						case <-time.After(2 * time.Millisecond):
							srv.PushBlock(TBlock{ID: fmt.Sprintf("%da", x), Parent: fmt.Sprintf("%da", x-1), Num: x}.pb())
						}
					}
				}()
			}
			callsAtLeast := func(n int) bool {
				l.mu.Lock()
				defer l.mu.Unlock()
				return l.calls >= n
			}
			switch where {
			case "unreachable":
				time.Sleep(60 * time.Millisecond)
				src.Shutdown(errors.New("shutdown while connecting"))
			case "async":
				for t0 := time.Now(); !callsAtLeast(2) && time.Since(t0) < 5*time.Second; {
					time.Sleep(2 * time.Millisecond)
				}
				src.Shutdown(errors.New("async shutdown"))
			case "in-handler":
				for t0 := time.Now(); !src.IsTerminating() && time.Since(t0) < 5*time.Second; {
					time.Sleep(2 * time.Millisecond)
				}
				if !src.IsTerminating() {
					src.Shutdown(errors.New("late shutdown"))
				}
			}
			finish(o, "grpc/"+where, src, done, l, nil, "")
			close(stopPush)
			if gs != nil {
				gs.Stop()
			}
		}
		// ---- file source
		for _, where := range []string{"before-run", "in-handler", "async", "while-waiting-for-a-file"} {
			l := &handlerLog{failAtK: -1}
			chain := genChain(r, 1, 12, false)
			store := mergedStore(layoutBundles(chain, 5), nil)
			var fs *bstream.FileSource
			if where == "in-handler" {
				l.onCall = func(k int) {
					if k == 2 {
						fs.Shutdown(errors.New("shutdown in handler"))
					}
				}
			}
			fs = bstream.NewFileSource(store, 1, l.handler(), nopLog, bstream.FileSourceWithBundleSize(5), bstream.FileSourceWithRetryDelay(2*time.Millisecond),
				bstream.FileSourceWithConcurrentPreprocess(func(b *pbbstream.Block) (interface{}, error) { return nil, nil }, 3))
			if where == "before-run" {
				fs.Shutdown(errors.New("shutdown before run"))
			}
			done := make(chan struct{})
			go func() { fs.Run(); close(done) }()
			switch where {
			case "async":
				time.Sleep(time.Duration(r.Intn(3)) * time.Millisecond)
				fs.Shutdown(errors.New("async shutdown"))
			case "while-waiting-for-a-file":
				time.Sleep(30 * time.Millisecond)
				fs.Shutdown(errors.New("shutdown while waiting"))
			}
			finish(o, "file/"+where, fs, done, l, nil, "")
		}
		o.End()
	}
}
