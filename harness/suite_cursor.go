package main

import (
	"encoding/hex"
	"fmt"
	"strings"

	"github.com/streamingfast/bstream"
	"github.com/streamingfast/opaque"
)

func init() {
	suites["cursor"] = suiteCursor
	replaySuites["cursor"] = func(o *Out, lines []string) { replayStateless(o, "cursor", lines, runCursorOp) }
}

func hx(b []byte) string {
	if len(b) == 0 {
		return "-"
	}
	return hex.EncodeToString(b)
}
func unhx(s string) []byte {
	if s == "-" {
		return nil
	}
	b, _ := hex.DecodeString(s)
	return b
}

type curT struct {
	step          int64
	bn, hn, ln    uint64
	bid, hid, lid []byte
}

func (c curT) toks() string {
	return fmt.Sprintf("%d %d %s %d %s %d %s", c.step, c.bn, hx(c.bid), c.hn, hx(c.hid), c.ln, hx(c.lid))
}
func (c curT) build() *bstream.Cursor {
	return &bstream.Cursor{Step: bstream.StepType(c.step),
		Block:     bstream.NewBlockRef(string(c.bid), c.bn),
		HeadBlock: bstream.NewBlockRef(string(c.hid), c.hn),
		LIB:       bstream.NewBlockRef(string(c.lid), c.ln)}
}
func curToks(c *bstream.Cursor) string {
	return fmt.Sprintf("%d %d %s %d %s %d %s", int64(c.Step), c.Block.Num(), hx([]byte(c.Block.ID())),
		c.HeadBlock.Num(), hx([]byte(c.HeadBlock.ID())), c.LIB.Num(), hx([]byte(c.LIB.ID())))
}
func parseCurToks(ws []string) curT {
	var c curT
	fmt.Sscan(ws[0], &c.step)
	fmt.Sscan(ws[1], &c.bn)
	c.bid = unhx(ws[2])
	fmt.Sscan(ws[3], &c.hn)
	c.hid = unhx(ws[4])
	fmt.Sscan(ws[5], &c.ln)
	c.lid = unhx(ws[6])
	return c
}

func safely(f func() string) (res string) {
	defer func() {
		if e := recover(); e != nil {
			res = "panic"
		}
	}()
	return f()
}

// reencode: what a cursor accepted from foreign input becomes when it is encoded and decoded again
func reencode(c *bstream.Cursor) string {
	c2, err := bstream.FromString(c.String())
	if err != nil {
		return " re err"
	}
	return " re ok " + curToks(c2)
}

func runCursorOp(o *Out, ws []string) {
	o.Op("%s", strings.Join(ws, " "))
	res := safely(func() string {
		switch ws[0] {
		case "tostr":
			return hx([]byte(parseCurToks(ws[1:]).build().String()))
		case "fromstr":
			c, err := bstream.FromString(string(unhx(ws[1])))
			if err != nil {
				return "err"
			}
			return "ok " + curToks(c) + reencode(c)
		case "rt":
			c, err := bstream.FromString(parseCurToks(ws[1:]).build().String())
			if err != nil {
				return "err"
			}
			return "ok " + curToks(c)
		case "opq":
			c, err := bstream.CursorFromOpaque(parseCurToks(ws[1:]).build().ToOpaque())
			if err != nil {
				return "err"
			}
			return "ok " + curToks(c)
		case "fromopq":
			c, err := bstream.CursorFromOpaque(string(unhx(ws[1])))
			if err != nil {
				return "err"
			}
			return "ok " + curToks(c) + reencode(c)
		case "final":
			return fmt.Sprint(parseCurToks(ws[1:]).build().IsOnFinalBlock())
		}
		return "bad-op"
	})
	o.Impl("%s", res)
}

var idAlphabet = []string{"a", "b", "00", "ff", "deadbeef", "0123456789abcdef0123456789abcdef", "é", "\x00", " ", "-", "c1", "1", "0", "\xff\xfe", "Z_z"}

func genID(r *Rng, malformed bool) []byte {
	switch r.Intn(8) {
	case 0:
		return []byte(fmt.Sprintf("%08x", r.U64()))
	case 1:
		if malformed {
			return []byte("a:b")
		}
		return []byte("")
	case 2:
		if malformed {
			return []byte(":")
		}
	case 3:
		// ids as long as real chains have them (64 hex characters), and longer ones: the text of a cursor has no bound
		return []byte(fmt.Sprintf("%016x%016x%016x%016x", r.U64(), r.U64(), r.U64(), r.U64()))
	case 4:
		if r.Intn(3) == 0 {
			return []byte(strings.Repeat(fmt.Sprintf("%016x", r.U64()), 6+r.Intn(6)))
		}
	}
	n := 1 + r.Intn(3)
	var sb strings.Builder
	for i := 0; i < n; i++ {
		sb.WriteString(idAlphabet[r.Intn(len(idAlphabet))])
	}
	return []byte(sb.String())
}

func genCursor(r *Rng) curT {
	var c curT
	steps := []int64{1, 2, 16, 17}
	c.step = steps[r.Intn(4)]
	if r.Intn(25) == 0 {
		c.step = []int64{0, 3, 4, 8, 32, 33, -1, 1 << 40}[r.Intn(8)]
	}
	mal := r.Intn(15) == 0
	c.bid, c.bn = genID(r, mal), r.Height()
	c.hid, c.hn = genID(r, mal), r.Height()
	c.lid, c.ln = genID(r, mal), r.Height()
	// aliasing patterns
	switch r.Intn(7) {
	case 0:
		c.hid, c.hn = c.bid, c.bn
	case 1:
		c.lid, c.ln = c.bid, c.bn
	case 2:
		c.hid, c.hn = c.bid, c.bn
		c.lid, c.ln = c.bid, c.bn
	case 3:
		c.hid, c.hn = c.lid, c.ln
	case 4: // equal ids, different heights (outside the round-trip hypothesis)
		c.hid = c.bid
	}
	return c
}

func genCursorString(r *Rng) []byte {
	c := genCursor(r)
	s := c.build().String()
	switch r.Intn(10) {
	case 0:
		return []byte(s)
	case 1: // mutate one byte
		b := []byte(s)
		if len(b) > 0 {
			b[r.Intn(len(b))] = byte(r.Intn(256))
		}
		return b
	case 2: // drop / duplicate a segment
		p := strings.Split(s, ":")
		i := r.Intn(len(p))
		if r.Bool() {
			p = append(p[:i], p[i+1:]...)
		} else {
			p = append(p[:i+1], p[i:]...)
		}
		return []byte(strings.Join(p, ":"))
	case 3: // replace a numeric segment with a tricky number
		p := strings.Split(s, ":")
		nums := []string{"+1", "007", "-0", "18446744073709551616", "18446744073709551615", "", " 1", "1 ", "1_0", "0x1", "１", "-1", "9223372036854775808", "99999999999999999999999999"}
		idx := []int{1, 2, 4}
		if len(p) == 8 {
			idx = append(idx, 6)
		}
		p[idx[r.Intn(len(idx))]] = nums[r.Intn(len(nums))]
		return []byte(strings.Join(p, ":"))
	case 4: // wrong prefix
		p := strings.Split(s, ":")
		p[0] = []string{"c0", "c4", "C1", "c", "", "c11", "c3", "c1", "c2"}[r.Intn(9)]
		return []byte(strings.Join(p, ":"))
	case 5:
		n := r.Intn(12)
		b := make([]byte, n)
		for i := range b {
			b[i] = byte(r.Intn(256))
		}
		return b
	case 6:
		n := r.Intn(10)
		return []byte(strings.Repeat(":", n))
	default:
		al := []string{"c1", "c2", "c3", ":", "1", "2", "16", "17", "a", "5", "", "::"}
		var sb strings.Builder
		for i, n := 0, r.Intn(14); i < n; i++ {
			sb.WriteString(al[r.Intn(len(al))])
			if r.Intn(3) > 0 {
				sb.WriteString(":")
			}
		}
		return []byte(sb.String())
	}
}

func suiteCursor(o *Out, r *Rng, n int, tier string) {
	for i := 0; i < n; i++ {
		o.Case("cursor")
		for j, k := 0, 1+r.Intn(5); j < k; j++ {
			switch r.Intn(9) {
			case 0, 1:
				c := genCursor(r)
				o.Stat("cursor.op.rt", 1)
				if string(c.bid) == string(c.hid) {
					o.Stat("cursor.alias.head=block", 1)
				} else if string(c.bid) == string(c.lid) {
					o.Stat("cursor.alias.block=lib", 1)
				} else {
					o.Stat("cursor.alias.none", 1)
				}
				runCursorOp(o, strings.Fields("tostr "+c.toks()))
				runCursorOp(o, strings.Fields("rt "+c.toks()))
			case 2:
				c := genCursor(r)
				o.Stat("cursor.op.opq", 1)
				runCursorOp(o, strings.Fields("opq "+c.toks()))
			case 3:
				c := genCursor(r)
				o.Stat("cursor.op.final", 1)
				runCursorOp(o, strings.Fields("final "+c.toks()))
			case 4, 5, 6:
				in := genCursorString(r)
				o.Stat("cursor.op.fromstr", 1)
				runCursorOp(o, []string{"fromstr", hx(in)})
				// whatever decodes must re-encode to an equivalent cursor
				if c, err := bstream.FromString(string(in)); err == nil {
					o.Stat("cursor.fromstr.decoded", 1)
					runCursorOp(o, strings.Fields("rt "+curToks(c)))
				}
			default:
				// foreign input to the opaque decoder: random bytes, random base64, mutated valid tokens
				var in []byte
				switch r.Intn(3) {
				case 0:
					in = make([]byte, r.Intn(40))
					for i := range in {
						in[i] = byte(r.Intn(256))
					}
				case 1:
					al := "ABCDEFGHIJKLMNOPQRSTUVWXYZabcdefghijklmnopqrstuvwxyz0123456789-_="
					in = make([]byte, r.Intn(60))
					for i := range in {
						in[i] = al[r.Intn(len(al))]
					}
				default:
					in = []byte(opaque.EncodeString(string(genCursorString(r))))
					if len(in) > 0 && r.Bool() {
						in[r.Intn(len(in))] ^= byte(1 << uint(r.Intn(8)))
					}
				}
				o.Stat("cursor.op.fromopq", 1)
				payload := "x"
				if p, err := opaque.DecodeToString(string(in)); err == nil {
					payload = hx([]byte(p))
					o.Stat("cursor.fromopq.decodable", 1)
				}
				runCursorOp(o, []string{"fromopq", hx(in), payload})
			}
		}
		o.End()
	}
}
