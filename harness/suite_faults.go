package main

import (
	"bytes"
	"context"
	"errors"
	"fmt"
	"io"
	"io/ioutil"
	"os"
	"strings"
	"sync"
	"sync/atomic"
	"time"

	"github.com/streamingfast/bstream"
	pbbstream "github.com/streamingfast/bstream/pb/sf/bstream/v1"
	"github.com/streamingfast/dstore"
)

func init() {
	suites["faults"] = suiteFaults
	replaySuites["faults"] = replayFaults
}

// fault: kind:arg…  — open:<base> | exists:<base> | read:<base>:<mode>:<msgidx> | pre:<blocknum> | handler:<k>
type fltCase struct {
	fsCase
	fault string
}

type errAfterReader struct {
	r     io.Reader
	limit int
	n     int
}

func (e *errAfterReader) Read(p []byte) (int, error) {
	if e.n >= e.limit {
		return 0, errors.New("injected read failure")
	}
	if len(p) > e.limit-e.n {
		p = p[:e.limit-e.n]
	}
	n, err := e.r.Read(p)
	e.n += n
	return n, err
}

// messageOffsets returns the offset of every length prefix of a dbin v1 file
func messageOffsets(file []byte) []int {
	if len(file) < 7 {
		return nil
	}
	pos := 7 + int(file[5])<<8 + int(file[6])
	var out []int
	for pos+4 <= len(file) {
		out = append(out, pos)
		l := int(file[pos])<<24 | int(file[pos+1])<<16 | int(file[pos+2])<<8 | int(file[pos+3])
		pos += 4 + l
	}
	return out
}

func damage(file []byte, mode string, msgidx int) (content []byte, readLimit int) {
	offs := messageOffsets(file)
	f := append([]byte(nil), file...)
	readLimit = -1
	at := len(f)
	if msgidx < len(offs) {
		at = offs[msgidx]
	}
	switch mode {
	case "badheader":
		copy(f, []byte("xxxx"))
	case "badlen":
		if at+4 <= len(f) {
			f[at+2] ^= 0x40 // length prefix grows by 16 KiB: the message cannot be read in full
		}
	case "trunc": // two bytes into the message body
		if at+6 <= len(f) {
			f = f[:at+6]
		}
	case "truncprefix": // exactly after the 4-byte length prefix: the reader sees a clean EOF with a non-empty buffer
		if at+4 <= len(f) {
			f = f[:at+4]
		}
	case "truncinlen": // inside the length prefix
		if at+2 <= len(f) {
			f = f[:at+2]
		}
	case "trunctail": // one byte before the end of the message
		if at+4 <= len(f) {
			l := int(f[at])<<24 | int(f[at+1])<<16 | int(f[at+2])<<8 | int(f[at+3])
			if l > 0 && at+4+l <= len(f) {
				f = f[:at+4+l-1]
			} else {
				f = f[:at+4]
			}
		}
	case "undecodable":
		if at+4 <= len(f) {
			l := int(f[at])<<24 | int(f[at+1])<<16 | int(f[at+2])<<8 | int(f[at+3])
			for i := at + 4; i < at+4+l && i < len(f); i++ {
				f[i] = 0xff
			}
		}
	case "ioerr":
		readLimit = at + 2
	}
	return f, readLimit
}

func runFaultCase(o *Out, c fltCase) {
	fa := "-"
	o.Case("faults", c.start, c.stop, c.bs, c.threads, fa, c.fault)
	for _, bu := range c.bundles {
		bundleLine(o, bu)
	}
	o.Op("run")
	fp := strings.Split(c.fault, ":")
	farg := func(i int) int {
		var v int
		if i < len(fp) {
			fmt.Sscan(fp[i], &v)
		}
		return v
	}
	// the class of the injected error (derived from the case, so that op lines and replays stay the same): a plain error,
	// or one that wraps a well-known sentinel — a storage backend reporting its own cancellation or deadline, a short
	// read. No such class is a reason to swallow the fault: the outcome must be the same.
	injected := func(what string) error {
		switch (farg(1)/int(c.bs+1) + len(c.bundles) + len(what)) % 4 {
		case 1:
			return fmt.Errorf("%s: %w", what, context.Canceled)
		case 2:
			return fmt.Errorf("%s: %w", what, context.DeadlineExceeded)
		case 3:
			return fmt.Errorf("%s: %w", what, io.ErrUnexpectedEOF)
		}
		return errors.New(what)
	}
	w := &missWatch{miss: map[string]int{}}
	files := map[string][]byte{}
	for _, bu := range c.bundles {
		files[fmt.Sprintf("%010d", bu.base)] = bundleBytes(bu.blocks)
	}
	store := mergedStore(c.bundles, w)
	inner := store.FileExistsFunc
	store.FileExistsFunc = func(ctx context.Context, base string) (bool, error) {
		if fp[0] == "exists" && base == fmt.Sprintf("%010d", farg(1)) {
			return false, injected("injected exists failure")
		}
		return inner(ctx, base)
	}
	store.OpenObjectFunc = func(ctx context.Context, name string) (io.ReadCloser, error) {
		content, ok := files[name]
		if !ok {
			return nil, dstore.ErrNotFound
		}
		if fp[0] == "open" && name == fmt.Sprintf("%010d", farg(1)) {
			return nil, injected("injected open failure")
		}
		if fp[0] == "read" && name == fmt.Sprintf("%010d", farg(1)) {
			dmg, limit := damage(content, fp[2], farg(3))
			if limit >= 0 {
				return ioutil.NopCloser(&errAfterReader{r: bytes.NewReader(dmg), limit: limit}), nil
			}
			return ioutil.NopCloser(bytes.NewReader(dmg)), nil
		}
		return ioutil.NopCloser(bytes.NewReader(content)), nil
	}
	var mu sync.Mutex
	calls := 0
	var returned int32
	late := 0
	h := bstream.HandlerFunc(func(blk *pbbstream.Block, obj interface{}) error {
		mu.Lock()
		defer mu.Unlock()
		w.touch()
		if atomic.LoadInt32(&returned) == 1 {
			late++
			return nil
		}
		o.Impl("blk %s %d ppok", tok(blk.Id), blk.Number)
		k := calls
		calls++
		if fp[0] == "handler" && k == farg(1) {
			return injected("injected handler failure")
		}
		return nil
	})
	pre := func(blk *pbbstream.Block) (interface{}, error) {
		if fp[0] == "pre" && blk.Number == uint64(farg(1)) {
			return nil, injected("injected preprocess failure")
		}
		return "pp:" + blk.Id, nil
	}
	opts := []bstream.FileSourceOption{bstream.FileSourceWithBundleSize(c.bs), bstream.FileSourceWithRetryDelay(2 * time.Millisecond),
		bstream.FileSourceWithConcurrentPreprocess(pre, c.threads)}
	if c.stop != 0 {
		opts = append(opts, bstream.FileSourceWithStopBlock(c.stop))
	}
	fs := bstream.NewFileSource(store, c.start, h, nopLog, opts...)
	var waitBase string
	w.fire = func(name string) {
		waitBase = name
		fs.Shutdown(errWaiting)
	}
	done := make(chan struct{})
	go func() { fs.Run(); close(done) }()
	res := ""
	select {
	case <-done:
	case <-time.After(10 * time.Second):
		res = "hang"
		hangCount++
	}
	atomic.StoreInt32(&returned, 1)
	if res == "" {
		err := fs.Err()
		switch {
		case err == nil:
			res = "nil"
		case strings.Contains(err.Error(), "injected open failure"):
			res = "openerr"
		case strings.Contains(err.Error(), "injected exists failure"):
			res = "existserr"
		case strings.Contains(err.Error(), "injected preprocess failure"):
			res = "preprocerr"
		case strings.Contains(err.Error(), "injected handler failure"):
			res = "handlererr"
		case strings.Contains(err.Error(), "unable to create block reader"):
			res = "headererr"
		case strings.Contains(err.Error(), "failed reading next dbin message"):
			res = "readerr"
		case strings.Contains(err.Error(), "unable to read block proto"):
			res = "decodeerr"
		default:
			res = classifyFS(err, waitBase)
		}
		// Run may return while a Shutdown started by another goroutine is still completing: give it a moment
		select {
		case <-fs.Terminated():
		case <-time.After(2 * time.Second):
			res += "+notterminated"
		}
	}
	time.Sleep(25 * time.Millisecond)
	mu.Lock()
	if late > 0 {
		o.Impl("late %d", late)
	}
	o.Impl("fsend %s", res)
	mu.Unlock()
	o.End()
	if hangCount >= 2 { // every further hang costs a full watchdog period: two witnesses are enough
		o.Flush()
		os.Exit(3)
	}
}

var hangCount int

func suiteFaults(o *Out, r *Rng, n int, tier string) {
	for i := 0; i < n; i++ {
		bs := uint64([]int{2, 3, 5, 10}[r.Intn(4)])
		first := uint64(r.Intn(12))
		chain := genChain(r, first, 6+r.Intn(24), r.Intn(3) == 0)
		bundles := layoutBundles(chain, bs)
		have := map[uint64]bool{}
		for _, b := range bundles {
			have[b.base] = true
		}
		lastBase := bundles[len(bundles)-1].base
		for b := bundles[0].base; b <= lastBase; b += bs {
			if !have[b] {
				bundles = append(bundles, fsBundle{base: b})
			}
		}
		sortBundles(bundles)
		c := fltCase{}
		c.bs, c.threads, c.failAt, c.bundles = bs, 1+r.Intn(6), -1, bundles
		lastNum := chain[len(chain)-1].Num
		c.start = first + uint64(r.Intn(int(lastNum-first)/2+1))
		c.stop = lastNum - uint64(r.Intn(3))
		if c.stop < c.start {
			c.stop = lastNum
		}
		// fault site: a bundle between the start bundle and the stop bundle
		sb, eb := c.start-c.start%bs, c.stop-c.stop%bs
		var cand []fsBundle
		for _, b := range bundles {
			if b.base >= sb && b.base <= eb {
				cand = append(cand, b)
			}
		}
		fb := cand[r.Intn(len(cand))]
		switch k := r.Intn(10); k {
		case 0, 1:
			c.fault = fmt.Sprintf("open:%d", fb.base)
		case 2:
			c.fault = fmt.Sprintf("exists:%d", fb.base)
		case 3, 4, 5, 6:
			mode := []string{"badheader", "badlen", "trunc", "truncprefix", "truncinlen", "trunctail", "undecodable", "ioerr"}[r.Intn(8)]
			idx := 0
			if len(fb.blocks) > 0 {
				idx = r.Intn(len(fb.blocks))
			} else {
				mode = "badheader" // an empty bundle has no message to damage
			}
			c.fault = fmt.Sprintf("read:%d:%s:%d", fb.base, mode, idx)
		case 7, 8:
			var el []TBlock
			for _, b := range chain {
				if b.Num >= c.start && b.Num <= c.stop {
					el = append(el, b)
				}
			}
			if len(el) == 0 {
				c.fault = "handler:0"
			} else {
				c.fault = fmt.Sprintf("pre:%d", el[r.Intn(len(el))].Num)
			}
		default:
			c.fault = fmt.Sprintf("handler:%d", r.Intn(8))
		}
		o.Stat("faults.kind."+strings.Split(c.fault, ":")[0], 1)
		runFaultCase(o, c)
	}
}

func sortBundles(b []fsBundle) {
	for i := 1; i < len(b); i++ {
		for j := i; j > 0 && b[j].base < b[j-1].base; j-- {
			b[j], b[j-1] = b[j-1], b[j]
		}
	}
}

func replayFaults(o *Out, lines []string) {
	var c fltCase
	open := false
	flush := func() {
		if open {
			runFaultCase(o, c)
		}
		c, open = fltCase{}, false
	}
	for _, l := range lines {
		ws := strings.Fields(l)
		if len(ws) == 0 {
			continue
		}
		switch ws[0] {
		case "case":
			flush()
			open = true
			fmt.Sscan(ws[3], &c.start)
			fmt.Sscan(ws[4], &c.stop)
			fmt.Sscan(ws[5], &c.bs)
			fmt.Sscan(ws[6], &c.threads)
			c.failAt = -1
			c.fault = ws[8]
		case "bundle":
			c.bundles = append(c.bundles, parseBundleLine(ws))
		case "end":
			flush()
		}
	}
	flush()
}
