package main

import (
	"fmt"
	"os"
	"sort"
	"strings"

	"github.com/streamingfast/bstream"
	"github.com/streamingfast/bstream/forkable"
	pbbstream "github.com/streamingfast/bstream/pb/sf/bstream/v1"
)

func init() {
	suites["forkable"] = suiteForkable
	replaySuites["forkable"] = replayForkable
}

type fkCfg struct {
	root    string // none | ex:id:num | in:id:num
	hold    bool
	kept    int
	allTrig bool
	filter  int
	fsb     uint64
}

func (c fkCfg) hdr() []interface{} {
	return []interface{}{c.root, b2i(c.hold), c.kept, b2i(c.allTrig), c.filter, c.fsb}
}

func (c fkCfg) options() []forkable.Option {
	var opts []forkable.Option
	p := strings.Split(c.root, ":")
	if len(p) == 3 {
		var n uint64
		fmt.Sscan(p[2], &n)
		id := p[1]
		if id == "-" {
			id = ""
		}
		ref := bstream.NewBlockRef(id, n)
		if p[0] == "ex" {
			opts = append(opts, forkable.WithExclusiveLIB(ref))
		} else {
			opts = append(opts, forkable.WithInclusiveLIB(ref))
		}
	}
	if c.hold {
		opts = append(opts, forkable.HoldBlocksUntilLIB())
	}
	opts = append(opts, forkable.WithKeptFinalBlocks(c.kept))
	if c.allTrig {
		opts = append(opts, forkable.EnsureAllBlocksTriggerLongestChain())
	}
	opts = append(opts, forkable.WithFilters(bstream.StepType(c.filter)))
	return opts
}

func stepName(s bstream.StepType) string {
	switch s {
	case bstream.StepNew:
		return "new"
	case bstream.StepUndo:
		return "undo"
	case bstream.StepIrreversible:
		return "irr"
	case bstream.StepStalled:
		return "stalled"
	case bstream.StepNewIrreversible:
		return "newirr"
	}
	return fmt.Sprintf("step%d", int(s))
}

func refTok(r bstream.BlockRef) string {
	if r == nil {
		return "nil:0"
	}
	return fmt.Sprintf("%s:%d", tok(r.ID()), r.Num())
}

// dbgTwin prints both traces of a twin run (VERIF_DEBUG_TWIN=1)
func dbgTwin(a, b []string) {
	if os.Getenv("VERIF_DEBUG_TWIN") == "" {
		return
	}
	fmt.Fprintln(os.Stderr, "BASE:\n "+strings.Join(a, "\n "))
	fmt.Fprintln(os.Stderr, "TWIN:\n "+strings.Join(b, "\n "))
}

func evLine(blk *pbbstream.Block, obj interface{}) string {
	fo, ok := obj.(*forkable.ForkableObject)
	if !ok {
		return fmt.Sprintf("ev raw %s %d", tok(blk.Id), blk.Number)
	}
	c := fo.Cursor()
	j := "-"
	if jb := fo.ReorgJunctionBlock(); jb != nil {
		j = refTok(jb)
	}
	step := stepName(fo.Step())
	// the cursor's step and block must be those of the event: print the cursor's and cross-check
	if c.Step != fo.Step() || c.Block.ID() != blk.Id || c.Block.Num() != blk.Number {
		step = "CURSORMISMATCH-" + step
	}
	return fmt.Sprintf("ev %s %s %d %s %s %s %d %d", step, tok(blk.Id), blk.Number, refTok(c.HeadBlock), refTok(c.LIB), j, fo.StepIndex, fo.StepCount)
}

type fkOp struct {
	b    TBlock
	fail int // -1 = none
}

type fkRunner struct {
	o      *Out
	p      *forkable.Forkable
	calls  int
	failAt int
	nums   []uint64
	ids    []string
	seenN  map[uint64]bool
	seenI  map[string]bool
}

func newFkRunner(o *Out, c fkCfg) *fkRunner {
	r := &fkRunner{o: o, failAt: -1, seenN: map[uint64]bool{}, seenI: map[string]bool{}}
	h := bstream.HandlerFunc(func(blk *pbbstream.Block, obj interface{}) error {
		o.Impl("%s", evLine(blk, obj))
		k := r.calls
		r.calls++
		if r.failAt >= 0 && k == r.failAt {
			return fmt.Errorf("injected handler failure")
		}
		return nil
	})
	r.p = forkable.New(h, c.options()...)
	return r
}

func (r *fkRunner) feed(op fkOp, queries bool) {
	b := op.b
	if op.fail >= 0 {
		r.o.Op("blk %s %s %d %d fail %d", tok(b.ID), tok(b.Parent), b.Num, b.Lib, op.fail)
	} else {
		r.o.Op("blk %s %s %d %d", tok(b.ID), tok(b.Parent), b.Num, b.Lib)
	}
	r.calls, r.failAt = 0, op.fail
	ret := safely(func() string {
		err := r.p.ProcessBlock(b.pb(), nil)
		switch {
		case err == nil:
			return "ok"
		case strings.Contains(err.Error(), "injected handler failure"):
			return "errhandler"
		case strings.Contains(err.Error(), "invalid block ID"):
			return "errinvalid"
		}
		return "err-other"
	})
	r.o.Impl("ret %s", ret)
	if !r.seenN[b.Num] {
		r.seenN[b.Num] = true
		r.nums = append(r.nums, b.Num)
		sort.Slice(r.nums, func(i, j int) bool { return r.nums[i] < r.nums[j] })
	}
	if !r.seenI[b.ID] {
		r.seenI[b.ID] = true
		r.ids = append(r.ids, b.ID)
	}
	if queries {
		r.queries()
	}
}

func (r *fkRunner) queries() {
	o, p := r.o, r.p
	o.Impl("q head %s", safely(func() string {
		num, id, _, lib, err := p.HeadInfo()
		if err != nil {
			return fmt.Sprintf("- %d", p.HeadNum())
		}
		return fmt.Sprintf("%s:%d:%d %d", tok(id), num, lib, p.HeadNum())
	}))
	o.Impl("q lowest %s", safely(func() string { return fmt.Sprint(p.LowestBlockNum()) }))
	o.Impl("q ids %s", safely(func() string {
		ids := p.AllIDs()
		sort.Strings(ids)
		if len(ids) == 0 {
			return "-"
		}
		for i := range ids {
			ids[i] = tok(ids[i])
		}
		return strings.Join(ids, ",")
	}))
	o.Impl("q canon %s", safely(func() string {
		var parts []string
		for _, n := range r.nums {
			id := "-"
			if b := p.CanonicalBlockAt(n); b != nil {
				id = tok(b.Id)
			}
			parts = append(parts, fmt.Sprintf("%d=%s", n, id))
		}
		return strings.Join(parts, " ")
	}))
	o.Impl("q byhash %s", safely(func() string {
		var parts []string
		for _, id := range r.ids {
			parts = append(parts, fmt.Sprintf("%s=%d", tok(id), b2i(p.GetBlockByHash(id) != nil)))
		}
		return strings.Join(parts, " ")
	}))
	o.Impl("q at %s", safely(func() string {
		var parts []string
		for _, n := range r.nums {
			var ids []string
			for _, b := range p.AllBlocksAt(n) {
				ids = append(ids, tok(b.Id))
			}
			sort.Strings(ids)
			s := "-"
			if len(ids) > 0 {
				s = strings.Join(ids, ",")
			}
			parts = append(parts, fmt.Sprintf("%d=%s", n, s))
		}
		return strings.Join(parts, " ")
	}))
}

// flatTrace runs ops on a fresh Forkable and returns the flattened event lines (no output).
func flatTrace(c fkCfg, ops []fkOp) []string {
	var lines []string
	calls, failAt := 0, -1
	h := bstream.HandlerFunc(func(blk *pbbstream.Block, obj interface{}) error {
		lines = append(lines, evLine(blk, obj))
		k := calls
		calls++
		if failAt >= 0 && k == failAt {
			return fmt.Errorf("injected handler failure")
		}
		return nil
	})
	p := forkable.New(h, c.options()...)
	for _, op := range ops {
		calls, failAt = 0, op.fail
		ret := safely(func() string {
			if err := p.ProcessBlock(op.b.pb(), nil); err != nil {
				return "err"
			}
			return "ok"
		})
		if ret != "ok" {
			lines = append(lines, "ret "+ret)
			break
		}
	}
	return lines
}

func sameLines(a, b []string) bool {
	if len(a) != len(b) {
		return false
	}
	for i := range a {
		if a[i] != b[i] {
			return false
		}
	}
	return true
}

// runTwin re-runs the history under another retention value, or with re-fed / below-LIB noise inserted,
// and compares the implementation's own traces with each other (C03: outputs do not depend on them).
func runTwin(o *Out, c fkCfg, ops []fkOp, spec []string) {
	base := flatTrace(c, ops)
	switch spec[0] {
	case "kept":
		c2 := c
		fmt.Sscan(spec[1], &c2.kept)
		o.Op("twin kept %d", c2.kept)
		t2 := flatTrace(c2, ops)
		if sameLines(base, t2) {
			o.Impl("twin same")
		} else {
			dbgTwin(base, t2)
			o.Impl("twin DIFF")
		}
	case "noise":
		var seed uint64
		fmt.Sscan(spec[1], &seed)
		r := NewRng(seed)
		var noisy []fkOp
		for i, op := range ops {
			noisy = append(noisy, op)
			if i > 0 && r.Intn(3) == 0 {
				re := ops[r.Intn(i+1)]
				re.fail = -1
				noisy = append(noisy, re) // a block fed before: duplicate, possibly below the LIB by now
			}
		}
		o.Op("twin noise %d", seed)
		// cursors' head of later events is the incoming block, which is unchanged; re-feeds deliver nothing
		t2 := flatTrace(c, noisy)
		if sameLines(base, t2) {
			o.Impl("twin same")
		} else {
			dbgTwin(base, t2)
			o.Impl("twin DIFF")
		}
	}
}

func runForkableCase(o *Out, c fkCfg, ops []fkOp, queries bool, twins ...[]string) {
	old := bstream.GetProtocolFirstStreamableBlock
	bstream.GetProtocolFirstStreamableBlock = c.fsb
	defer func() { bstream.GetProtocolFirstStreamableBlock = old }()
	q := "noq"
	if queries {
		q = "q"
	}
	o.Case("forkable", append(c.hdr(), q)...)
	r := newFkRunner(o, c)
	for _, op := range ops {
		r.feed(op, queries)
	}
	for _, tw := range twins {
		runTwin(o, c, ops, tw)
	}
	o.End()
}

// genForkableCase builds a config, a tree and an arrival order.
func genForkableCase(r *Rng, o *Out) (fkCfg, []fkOp, *Tree) {
	rootNum := uint64(1 + r.Intn(4))
	if r.Intn(15) == 0 {
		// heights are uint64: a chain that crosses 2^63, or sits near the top of the range
		rootNum = []uint64{(uint64(1) << 63) - uint64(1+r.Intn(4)), ^uint64(0) - 400}[r.Intn(2)]
		o.Stat("forkable.heights_in_the_upper_half_of_uint64", 1)
	}
	to := TreeOpts{N: 3 + r.Intn(12), RootNum: rootNum, RootParent: fmt.Sprintf("%dz", rootNum-1),
		SkipNums: r.Intn(3) == 0, Orphans: r.Intn(4) == 0, Malformed: r.Intn(12) == 0,
		ForkBias: []int{0, 1, 2, 3, 5}[r.Intn(5)], LibPolicy: r.Intn(4)}
	if r.Intn(10) == 0 {
		to.RootParent = "" // a genesis-like root whose parent id is empty
	}
	fsbIsRoot := r.Intn(8) == 0
	to.RootOwnLib = fsbIsRoot
	t := genTree(r, to)
	c := fkCfg{kept: []int{0, 0, 1, 2, 5, 100}[r.Intn(6)], allTrig: r.Intn(4) == 0, filter: 51, fsb: 0}
	switch r.Intn(8) {
	case 0:
		c.filter = 3 // New|Undo
	case 1:
		c.filter = 19 // New|Undo|Irreversible
	case 2:
		c.filter = 35 // New|Undo|Stalled
	}
	feedRoot := false
	switch r.Intn(7) {
	case 0, 1, 2:
		c.root = fmt.Sprintf("ex:%s:%d", t.Root.ID, t.Root.Num)
		feedRoot = r.Intn(3) == 0
		o.Stat("forkable.cfg.exclusive", 1)
	case 3, 4:
		c.root = fmt.Sprintf("in:%s:%d", t.Root.ID, t.Root.Num)
		feedRoot = r.Intn(8) != 0
		o.Stat("forkable.cfg.inclusive", 1)
	case 5:
		c.root, c.hold = "none", true
		feedRoot = true
		o.Stat("forkable.cfg.discovery_hold", 1)
	default:
		c.root, c.hold = "none", true
		feedRoot = r.Bool()
		o.Stat("forkable.cfg.discovery_hold", 1)
		if r.Intn(3) == 0 {
			// forkable.New(h) with no option at all: no LIB, blocks are passed on before the LIB is discovered
			c.hold = false
			o.Stat("forkable.cfg.discovery_without_hold", 1)
		}
	}
	if fsbIsRoot {
		c.fsb = t.Root.Num // the root is the first streamable block of the chain
		o.Stat("forkable.cfg.root_is_first_streamable", 1)
	}
	blocks := t.Blocks
	pol := r.Intn(4)
	o.Stat(fmt.Sprintf("forkable.arrival.%d", pol), 1)
	order := arrival(r, blocks, pol)
	if feedRoot {
		pos := 0
		if r.Intn(6) == 0 {
			pos = r.Intn(len(order) + 1)
		}
		order = append(order[:pos], append([]TBlock{t.Root}, order[pos:]...)...)
	}
	order = withNoise(r, order, []int{0, 10, 25}[r.Intn(3)])
	ops := make([]fkOp, len(order))
	for i, b := range order {
		ops[i] = fkOp{b: b, fail: -1}
	}
	if r.Intn(5) == 0 && len(ops) > 2 { // inject one handler failure
		i := 1 + r.Intn(len(ops)-1)
		ops[i].fail = r.Intn(4)
		o.Stat("forkable.handler_failure_cases", 1)
	}
	if to.Malformed {
		o.Stat("forkable.malformed_lib", 1)
	}
	return c, ops, t
}

func suiteForkable(o *Out, r *Rng, n int, tier string) {
	for i := 0; i < n; i++ {
		c, ops, _ := genForkableCase(r, o)
		var twins [][]string
		hasFail := false
		for _, op := range ops {
			if op.fail >= 0 {
				hasFail = true
			}
		}
		if !hasFail && r.Intn(2) == 0 {
			k2 := []int{0, 1, 3, 50}[r.Intn(4)]
			if k2 == c.kept {
				k2 = c.kept + 7
			}
			twins = append(twins, []string{"kept", fmt.Sprint(k2)}, []string{"noise", fmt.Sprint(r.U64() % 1000000)})
			o.Stat("forkable.twins", 1)
		}
		runForkableCase(o, c, ops, true, twins...)
	}
}

func parseFkHeader(ws []string) (fkCfg, bool) {
	// case n forkable root hold kept alltrig filter fsb [q|noq]
	var c fkCfg
	c.root = ws[3]
	c.hold = ws[4] == "1"
	fmt.Sscan(ws[5], &c.kept)
	c.allTrig = ws[6] == "1"
	fmt.Sscan(ws[7], &c.filter)
	fmt.Sscan(ws[8], &c.fsb)
	q := true
	if len(ws) > 9 && ws[9] == "noq" {
		q = false
	}
	return c, q
}

func parseBlkOp(ws []string) fkOp {
	// op blk id parent num lib [fail k]
	op := fkOp{fail: -1}
	op.b.ID, op.b.Parent = ws[2], ws[3]
	if op.b.ID == "-" {
		op.b.ID = ""
	}
	if op.b.Parent == "-" {
		op.b.Parent = ""
	}
	fmt.Sscan(ws[4], &op.b.Num)
	fmt.Sscan(ws[5], &op.b.Lib)
	if len(ws) >= 8 && ws[6] == "fail" {
		fmt.Sscan(ws[7], &op.fail)
	}
	return op
}

func replayForkable(o *Out, lines []string) {
	var c fkCfg
	var q, open bool
	var ops []fkOp
	var twins [][]string
	flush := func() {
		if open {
			runForkableCase(o, c, ops, q, twins...)
		}
		ops, twins, open = nil, nil, false
	}
	for _, l := range lines {
		ws := strings.Fields(l)
		if len(ws) == 0 {
			continue
		}
		switch ws[0] {
		case "case":
			flush()
			c, q = parseFkHeader(ws)
			open = true
		case "op":
			if ws[1] == "blk" {
				ops = append(ops, parseBlkOp(ws))
			}
			if ws[1] == "twin" && len(ws) >= 4 {
				twins = append(twins, ws[2:4])
			}
		case "end":
			flush()
		}
	}
	flush()
}
