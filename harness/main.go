// bsharness drives the real streamingfast/bstream code (from /repo, through a replace directive)
// with generated inputs and prints the line protocol consumed by the Lean driver `bsmodel`.
//
//	bsharness <suite> [-seed N] [-n cases] [-tier quick|thorough] [-replay file]
//
// Output: case/op/impl/end lines on stdout, `stat` lines (distributions for the evidence file) at the end.
package main

import (
	"bufio"
	"flag"
	"fmt"
	"os"
	"sort"
	"strings"
)

type Out struct {
	w     *bufio.Writer
	stats map[string]int64
	caseN int
}

func (o *Out) Case(suite string, cfg ...interface{}) {
	o.caseN++
	fmt.Fprintf(o.w, "case %d %s", o.caseN, suite)
	for _, c := range cfg {
		fmt.Fprintf(o.w, " %v", c)
	}
	fmt.Fprintln(o.w)
}
func (o *Out) Op(format string, a ...interface{}) {
	fmt.Fprintf(o.w, "op "+format+"\n", a...)
}
func (o *Out) Impl(format string, a ...interface{}) {
	fmt.Fprintf(o.w, "impl "+format+"\n", a...)
}
func (o *Out) Line(format string, a ...interface{}) {
	fmt.Fprintf(o.w, format+"\n", a...)
}
func (o *Out) End()               { fmt.Fprintln(o.w, "end"); o.w.Flush() }
func (o *Out) Flush()             { o.w.Flush() }
func (o *Out) Stat(k string, d int64) { o.stats[k] += d }

type Suite func(o *Out, rng *Rng, n int, tier string)

var suites = map[string]Suite{}

// replay suites re-run the ops of a case file against the implementation (corpus / replays)
type ReplaySuite func(o *Out, lines []string)

var replaySuites = map[string]ReplaySuite{}

// replayStateless re-runs every `op` line of a case file through run.
func replayStateless(o *Out, suite string, lines []string, run func(o *Out, ws []string)) {
	open := false
	for _, l := range lines {
		ws := strings.Fields(l)
		if len(ws) == 0 {
			continue
		}
		switch ws[0] {
		case "case":
			if open {
				o.End()
			}
			o.Case(suite)
			open = true
		case "op":
			if !open {
				o.Case(suite)
				open = true
			}
			run(o, ws[1:])
		case "end":
			if open {
				o.End()
			}
			open = false
		}
	}
	if open {
		o.End()
	}
}

func main() {
	if len(os.Args) < 2 {
		fmt.Fprintln(os.Stderr, "usage: bsharness <suite> [-seed N] [-n N] [-tier quick|thorough] [-replay file]")
		os.Exit(2)
	}
	suite := os.Args[1]
	fs := flag.NewFlagSet("bsharness", flag.ExitOnError)
	seed := fs.Uint64("seed", 1, "PRNG seed")
	n := fs.Int("n", 1000, "number of cases")
	tier := fs.String("tier", "quick", "quick|thorough")
	replay := fs.String("replay", "", "re-run the cases of this ops file")
	caseBase := fs.Int("casebase", 0, "number the cases from this value on (shards of one suite run)")
	fs.Parse(os.Args[2:])

	o := &Out{w: bufio.NewWriterSize(os.Stdout, 1<<20), stats: map[string]int64{}}
	o.caseN = *caseBase
	if *replay != "" {
		rs, ok := replaySuites[suite]
		if !ok {
			fmt.Fprintf(os.Stderr, "suite %q has no replay mode\n", suite)
			os.Exit(2)
		}
		data, err := os.ReadFile(*replay)
		if err != nil {
			fmt.Fprintln(os.Stderr, err)
			os.Exit(2)
		}
		rs(o, strings.Split(string(data), "\n"))
	} else {
		s, ok := suites[suite]
		if !ok {
			fmt.Fprintf(os.Stderr, "unknown suite %q\n", suite)
			os.Exit(2)
		}
		s(o, NewRng(*seed), *n, *tier)
	}
	keys := make([]string, 0, len(o.stats))
	for k := range o.stats {
		keys = append(keys, k)
	}
	sort.Strings(keys)
	for _, k := range keys {
		fmt.Fprintf(o.w, "stat %s %d\n", k, o.stats[k])
	}
	o.w.Flush()
}
