"""Per-property configuration of bin/check: suites (name, quick n, thorough n), Lean theorem modules,
projection of the line protocol, what counts as a non-trivial case, claimed level."""


def nt_range(suite, case, impl):
    # non-trivial: a split into >= 2 chunks, or an op on a value within 2 of a bound, or a parse
    for l in case["lines"]:
        if l.startswith("impl ok ") and ";" in l:
            return True
        if l.startswith("op parse") or l.startswith("op isnext") or l.startswith("op reached"):
            return True
    return False


HOOK_COMMITS = ["4913322", "a563a34"]

LEVEL_NOTE_COMMON = "Trusted: Lean 4.33 kernel (axioms propext, Classical.choice, Quot.sound only; audited per theorem on every run); the hand-written model, whose agreement with /repo is checked by differential execution on every run, not proved; the Go harness/canonicalisation; "

def nt_cursor(suite, case, impl):
    # non-trivial: a decode that succeeds, or an encode with an aliasing pattern / malformed input that is rejected
    return any(l.startswith("impl ok") for l in case["lines"]) and len(case["lines"]) >= 4


def nt_gates(suite, case, impl):
    # non-trivial: the gate both held something back and forwarded something, or raised the hold-off error
    fw = [l for l in case["lines"] if l.startswith("impl ")]
    vals = set(l.split()[-1] for l in fw) | set(l.split()[1] for l in fw)
    return len(vals) >= 2 and len(fw) >= 3


def nt_server(suite, case, impl):
    ops = [l.split()[1] for l in case["lines"] if l.startswith("op ")]
    return "sub" in ops and "push" in ops and "recv" in ops


def proj_forkable(pid, suite, case, lines):
    """Per-property projection of the forkable line protocol (same function for impl and model lines)."""
    if suite == "hubburst":
        # burst answers (events with all cursor fields, served/refused, snapshots); live events only for C04
        keep = ("b", "bret", "bf", "canon", "lowest", "panic")
        return [l for l in lines if l.split()[:1] and (l.split()[0] in keep or (pid == "C04" and l.split()[0] == "ev"))]
    if suite != "forkable":
        return lines
    out = []
    for l in lines:
        w = l.split()
        if not w:
            continue
        if pid == "C01":
            if w[0] == "ev" and w[1] in ("new", "undo"):
                out.append(" ".join(w[:4]))
            elif w[0] == "ret":
                out.append(l)
        elif pid == "C02":
            if w[0] == "ev" and w[1] in ("irr", "stalled"):
                out.append(" ".join(w[:5] + w[7:9]))
        elif pid == "C03":
            if w[0] == "q" and w[1] == "head":
                out.append(l)
            elif w[0] == "ev" and w[1] in ("irr", "new", "undo"):
                out.append(" ".join(w[:3]))
            elif w[0] == "twin":
                out.append(l)
        elif pid == "C04":
            if w[0] == "ev":
                out.append(l)
        elif pid == "C18":
            if w[0] == "q":
                out.append(l)
        else:
            out.append(l)
    return out


def nt_forkable(suite, case, impl):
    # non-trivial: the history contains at least one reorganisation (an Undo) or a LIB move (an Irreversible)
    return any(l.startswith("impl ev undo") or l.startswith("impl ev irr") for l in case["lines"])


FORKABLE_RULE = ("cases = generated block tree (3-14 blocks + root; forks at any height with bias 0-50%, skipped numbers, 1-2 never-linking orphans, "
                 "LIB declarations by policy lagging/jumping/per-branch speed/frozen, 1 in 12 trees with malformed LIB declarations, 1 in 10 roots with empty parent id) x arrival order "
                 "(creation order / windowed shuffle / full shuffle / by height) with 0-25% re-fed duplicates x configuration (exclusive / inclusive / hold-until-LIB discovery root, root block fed or not, "
                 "kept in {0,1,2,5,100}, all-blocks-trigger, filters 51/3/19/35, first streamable block = root or 0) x optional handler failure at call 0-3 of one block; "
                 "half of the failure-free cases are re-run under another kept value and with re-fed noise (twins); queries after every block. "
                 "distinct = sha1 of header+ops; non-trivial = at least one Undo or Irreversible event delivered")
FORKABLE_TB = ["Forkable.ProcessBlock / ForkDB modelled statement by statement in Model/Forkable.lean, Model/ForkDB.lean (Go maps as one keyed entry list, uint64 heights as Nat); EnsureBlockFlows and the unlinkable-block counters are not modelled (never enabled)"]

def nt_files(suite, case, impl):
    if suite == "dbin":
        return any(l.startswith("impl blk") for l in case["lines"]) and any(" trunc " in l or " corrupt " in l for l in case["lines"])
    return any(l.startswith("impl ok") or l.startswith("impl found") for l in case["lines"])


def nt_index(suite, case, impl):
    return sum(1 for l in case["lines"] if l.startswith("impl res ") and l not in ("impl res err", "impl res -")) >= 2


PROPS = {
    "C15": {
        "suites": [("index", 1500, 20000)], "props": ["C15"], "level": "proof",
        "nontrivial": nt_index,
        "technique": "Lean 4 theorems (indexer invariant by induction over ascending blocks, bitmap-as-ascending-list algebra, scan = filter on sorted lists) + differential correspondence of BlockIndexer/GenericBlockIndexProvider over generated key assignments",
        "level_text": "written_files_exact: every index file written while feeding strictly ascending blocks from a boundary holds, per key, exactly the fed blocks of its range carrying that key; blocksInRange_spec/_mem/_ascending: the provider returns exactly the matching indexed blocks of [max(base,fsb), base+size), ascending; upper_bound_exclusive pins the bound the unfixed code got wrong. The file-source half of C15 is covered by the filesrc suite (sequential model) without a closed-form theorem yet.",
        "level_note": LEVEL_NOTE_COMMON + "roaring64 bitmaps modelled as ascending lists (finite sets); protobuf encoding of index files not modelled (files are records); MockStore without overwrite.",
        "rule": "cases = one BlockIndexer (index size = bundle x {1,2,3,10}, bundle in {1,2,5,10}, fsb 0-3, optional defined start block) fed 5-44 ascending blocks (skipped numbers, occasional jump over a whole index range, start on/off a boundary) with random subsets of 8 keys, then 1-3 providers (exact or prefix key filters, possibleIndexSizes lists incl. sizes below the bundle size) queried at every bundle base of the range (1 in 25 off boundary); distinct = sha1 of header+ops; non-trivial = at least two non-empty query answers",
        "explanation": "model answers compared op by op; an independent monitor recomputes, from the add ops alone, which blocks each query must return",
        "assumptions": ["roaring64 bitmap semantics = finite sets of uint64"],
    },
    "C16": {
        "suites": [("dbin", 400, 4000), ("oneblock", 3000, 40000)], "props": ["C16"], "level": "proof",
        "nontrivial": nt_files,
        "technique": "Lean 4 theorems on a byte-level model of the dbin framing and of the file-name codec (append/prefix lemmas, decimal and split inverses) + differential correspondence on intact, truncated and corrupted files with proto.Unmarshal as oracle",
        "level_text": "roundtrip, truncation (every truncation point: header error or a correct prefix, end-of-file only at a frame boundary), damage_after_prefix (frames before a damaged byte are returned unaltered), decodes_only_complete and filename_roundtrip are kernel-checked for all byte strings; protobuf is an abstract codec (hypothesis dec m = some (d m), checked dynamically). 'Never an altered block' is false for a corrupted byte inside a message (no checksum) and for ids containing '-': both are known findings with kernel-checked/recorded witnesses.",
        "level_note": LEVEL_NOTE_COMMON + "dbin library (io.ReadFull zero-padding) modelled by readN; protobuf marshal/unmarshal abstract; dstore.MockStore walk order = sorted names.",
        "rule": "dbin cases = 1-4 generated blocks (payload or legacy PayloadKind/PayloadBuffer, heights from the 64-bit pool, 0-59 payload bytes, 1 in 25 with an all-default block marshalling to zero bytes) written with DBinBlockWriter, then read intact, at 6 (thorough 40) truncation points biased to header/prefix/tail boundaries and with 6 (40) single-byte corruptions (header, first length prefix, anywhere; values 0,1,2,0x7f,0x80,0xff,random); variants whose damaged length prefix exceeds 16 MiB are skipped for speed and counted. oneblock cases = 1-4 ops of file-name build/parse/round-trip (ids 0-64 chars incl. empty and with '-', heights up to 2^64-1, mutated names) and FetchBlockFromOneBlockStore over generated stores. distinct = sha1 of ops; non-trivial = dbin: at least one block read from a damaged file; oneblock: at least one successful parse/fetch",
        "explanation": "theorems over all byte strings; correspondence compares every Read() result and end class with the model (oracle = dbin library split + proto.Unmarshal of each message)",
        "assumptions": ["proto.Marshal/Unmarshal round-trip (checked on every written block)", "ACCEPT_SOLANA_LEGACY_BLOCK_FORMAT unset"],
    },
    "C01": {
        "suites": [("forkable", 3000, 40000)], "props": ["C01"], "level": "other",
        "projection": proj_forkable, "nontrivial": nt_forkable, "rule": FORKABLE_RULE, "trusted_base": FORKABLE_TB,
        "technique": "Lean 4 model of Forkable.ProcessBlock + consumer-discipline monitor (Lean) on the implementation's traces + differential correspondence; invariant proof in progress",
        "level_text": "PLACEHOLDER",
        "level_note": LEVEL_NOTE_COMMON,
        "explanation": "PLACEHOLDER",
    },
    "C02": {
        "suites": [("forkable", 3000, 40000)], "props": ["C02"], "level": "other",
        "projection": proj_forkable, "nontrivial": nt_forkable, "rule": FORKABLE_RULE, "trusted_base": FORKABLE_TB,
        "technique": "Lean 4 model of Forkable.ProcessBlock + finality monitor (Lean) on the implementation's traces + differential correspondence",
        "level_text": "PLACEHOLDER", "level_note": LEVEL_NOTE_COMMON, "explanation": "PLACEHOLDER",
    },
    "C03": {
        "suites": [("forkable", 3000, 40000)], "props": ["C03"], "level": "other",
        "projection": proj_forkable, "nontrivial": nt_forkable, "rule": FORKABLE_RULE, "trusted_base": FORKABLE_TB,
        "technique": "Lean 4 reference fork-choice specification evaluated against the implementation after every block + retention/noise twin runs + differential correspondence",
        "level_text": "PLACEHOLDER", "level_note": LEVEL_NOTE_COMMON, "explanation": "PLACEHOLDER",
    },
    "C04": {
        "suites": [("forkable", 3000, 40000), ("hubburst", 1500, 15000)], "props": ["C04"], "level": "other",
        "projection": proj_forkable, "nontrivial": nt_forkable, "rule": FORKABLE_RULE, "trusted_base": FORKABLE_TB,
        "technique": "Lean 4 model computing every cursor field + cursor monitor (Lean) on the implementation's traces + differential correspondence of all cursor fields",
        "level_text": "PLACEHOLDER", "level_note": LEVEL_NOTE_COMMON, "explanation": "PLACEHOLDER",
    },
    "C05": {
        "suites": [("hubburst", 2500, 30000)], "props": ["C05"], "level": "other",
        "projection": proj_forkable, "nontrivial": lambda suite, case, impl: any(l.startswith("impl b undo") or l.startswith("impl b irr") for l in case["lines"]),
        "rule": "cases = forkable histories as in C01-C04 (hub-like hold-until-LIB configuration 2 times in 3, all steps delivered); after a third of the blocks: a canonical snapshot, 2 requests by number around the window, sometimes a with-forks request, and up to 3 resumptions from cursors delivered earlier (New, Undo, 1/3 of the Irreversible ones; biased to recent ones), a third of them also through-cursor from a start around/below the cursor block. distinct = sha1 of header+ops; non-trivial = some burst contains an Undo or an Irreversible event",
        "trusted_base": FORKABLE_TB,
        "technique": "Lean 4 model of blocksFromCursor/blocksThroughCursor + pure-consumer monitor (Lean): burst applied to the consumer state at the cursor must end on the hub's live chain + differential correspondence of every burst",
        "level_text": "PLACEHOLDER", "level_note": LEVEL_NOTE_COMMON, "explanation": "PLACEHOLDER",
    },
    "C06": {
        "suites": [("resolver", 2000, 25000)], "props": ["C06"], "level": "other",
        "nontrivial": lambda suite, case, impl: any(l.startswith("impl ev undo") or l.startswith("impl ev irr") for l in case["lines"]),
        "rule": "cases = a generated tree (4-17 blocks, forks with bias 10-50%, skipped numbers, LIB policies) fed to a real Forkable to obtain real cursors and the final canonical chain; the chain is written to merged bundles (size 2/3/5/10, real DBinBlockWriter), every forked block to the forked store as a one-block file (each missing with probability 0/0/15/40%, 1 in 25 unreadable), ids with an 18-char common prefix in a quarter of the cases (16-char truncation in file names); one delivered New/Undo/Irreversible cursor (half of the time one whose block ended up forked out) is resumed through the real NewFileSourceFromCursor with a stop block (1 in 5: NewFileSourceThroughCursor from a start block). distinct = sha1 of header+body; non-trivial = the resumption delivers an Undo or an Irreversible event",
        "technique": "Lean 4 model of cursorResolver + FileSourceSeq + pure-consumer monitor (Lean): events applied to the consumer state implied by the cursor must end with an empty pending stack on the last canonical block + differential correspondence with real stores",
        "level_text": "PLACEHOLDER", "level_note": LEVEL_NOTE_COMMON, "explanation": "PLACEHOLDER",
    },
    "C10": {
        "suites": [("filesrc", 500, 6000)], "props": ["C10"], "level": "other",
        "nontrivial": lambda suite, case, impl: sum(1 for l in case["lines"] if l.startswith("impl blk")) >= 3,
        "rule": "cases = a linear chain of 4-29 blocks (skipped numbers 1 in 3) laid out in bundles of size 1/2/3/5/10 (real DBinBlockWriter, empty bundle files for ranges without blocks), start anywhere (mid-file, on a missing number, on the first base), stop block anywhere or none (then the run ends waiting for the next file), 1-8 preprocessor threads with pseudo-random 0-450 microsecond delays per preprocess call, optional legacy leading block below the bundle base, a broken parent link, a missing bundle file, a handler failure at call 0-5; distinct = sha1 of header+body; non-trivial = at least 3 blocks delivered",
        "technique": "Lean 4 sequential model of FileSource (FileSourceSeq) + delivery monitor (Lean) + differential correspondence under randomised preprocess delays and thread counts",
        "level_text": "PLACEHOLDER", "level_note": LEVEL_NOTE_COMMON, "explanation": "PLACEHOLDER",
    },
    "C07": {
        "suites": [("stream", 100, 1500)], "props": ["C07"], "level": "other", "suite_timeout": 2400,
        "nontrivial": lambda suite, case, impl: any(l.startswith("impl ev newirr") for l in case["lines"]) and any(l.startswith("impl ev new ") for l in case["lines"]),
        "rule": "cases = a generated tree (22-37 blocks, forks, skipped numbers, LIB policies) whose canonical chain crosses one 100-block bundle boundary; merged files = the complete bundle below the boundary (real DBinBlockWriter), forked one-block files for every forked block (30% missing in a quarter of the cases); a real ForkableHub (kept 100 mostly, else 0/1/2/5) bootstrapped through one one-block pass up to a moment t0 at which its LIB has reached the end of the files; a real stream.New(...).Run started by number (anywhere from the root to the hub head, negative, at/after the stop block), from a delivered New/Undo/Irreversible cursor (half of them on blocks that end up forked out) or through a target cursor, default/final-only/custom filters, stop block in the files / on the boundary / in the hub window / on a skipped number / none; the remaining blocks reach the hub either inside the handler of delivery #k or when the stream is quiescent (the schedule). distinct = sha1 of header+body; non-trivial = the run delivers blocks from files and from the live hub (a handoff happened)",
        "technique": "Lean 4 simulation model of JoiningSource+Stream over the Forkable/HubBurst/FileSourceSeq/Resolver models with an explicit schedule of hub pushes + pure-consumer monitor (Lean) + differential correspondence against the real stream/hub/file source",
        "level_text": "PLACEHOLDER", "level_note": LEVEL_NOTE_COMMON, "explanation": "PLACEHOLDER",
    },
    "C13": {
        "suites": [("stream", 100, 1500)], "props": ["C13"], "level": "other", "suite_timeout": 2400,
        "nontrivial": lambda suite, case, impl: any(l.startswith("impl send stop") or l.startswith("impl send invalidarg") for l in case["lines"]),
        "rule": "same cases as C07; non-trivial = the stream ended with stop-block-reached or an invalid-argument error",
        "technique": "Lean 4 model of Stream option handling (negative start, start/stop check, final-only cursor check, filter and stop handlers as list transformers) + monitors (nothing above the stop block, filters only remove) + differential correspondence",
        "level_text": "PLACEHOLDER", "level_note": LEVEL_NOTE_COMMON, "explanation": "PLACEHOLDER",
    },
    "C11": {
        "suites": [("faults", 500, 6000)], "props": ["C11"], "level": "other",
        "nontrivial": lambda suite, case, impl: any(l.startswith("impl blk") for l in case["lines"]),
        "rule": "cases = a file source over a generated chain in bundles (size 2/3/5/10, 1-6 preprocessor threads, start in the first half, stop near the end) with exactly one injected fault: OpenObject of one bundle fails; FileExists of one bundle fails persistently; the bytes of one bundle are damaged (bad header, length prefix enlarged, truncation inside a message, message made undecodable, I/O error while reading) at a chosen message; the preprocessor fails on one block; the handler fails at call k. distinct = sha1 of header+body; non-trivial = at least one block was delivered before the fault",
        "technique": "Lean 4 sequential model giving the allowed outcome set per fault (gap-free prefix bounded by the fault position + error class) + fault-injecting store around the real FileSource + watchdog for Run not returning + late-handler-call detection",
        "level_text": "PLACEHOLDER", "level_note": LEVEL_NOTE_COMMON, "explanation": "PLACEHOLDER",
    },
    "C08": {
        "suites": [("hubsubs", 150, 3000)], "props": ["C08"], "level": "other", "facts": True,
        "nontrivial": lambda suite, case, impl: sum(1 for l in case["lines"] if l.startswith("impl sub")) >= 3,
        "rule": "trials = a real, ready ForkableHub holding a 20-block chain; 2-16 goroutines request SourceFromBlockNum (start 5..18) at the same instant while the feeder goroutine pushes 5-20 live blocks; then more blocks are pushed; every running subscriber must have received exactly the New blocks from its start to the final head, contiguous and once; in a third of the trials one subscriber never reads and must be dropped after 100+burst undelivered events while the others are unaffected. distinct = sha1 of header+ops; non-trivial = at least 3 subscribers",
        "technique": "Lean 4 interleaving model of concurrent registrations (finite reachable set closed under every step, by kernel evaluation) parameterised by lock facts regenerated from /repo by a go/ast extractor + barrier stress of the real hub",
        "level_text": "PLACEHOLDER", "level_note": LEVEL_NOTE_COMMON, "explanation": "PLACEHOLDER",
    },
    "C12": {
        "suites": [("shutdown", 12, 200)], "props": ["C12"], "level": "other", "facts": True,
        "nontrivial": lambda suite, case, impl: True,
        "rule": "each case runs 21 scenarios against the real sources: JoiningSource (Shutdown before Run, from inside the live / file / join factory, inside a handler call, asynchronously), EternalSource (before Run, inside the 1st/2nd factory call, in a handler call, during the restart delay; restart must resume from the last accepted block), MultiplexedSource (2-4 inner sources pushing concurrently: handler failure, asynchronous Shutdown, Shutdown while connecting; handler calls must never overlap, all inner sources must be shut down), hub subscription (before Run, in handler, async) and FileSource (before Run, in handler, async, while waiting for a missing file); watchdog 4 s for Run returning, Terminated, no handler call after Terminated. distinct = sha1 of the case; every case is non-trivial",
        "technique": "Lean 4 interleaving model of shutter.Shutdown vs the obtain/register/run pattern (reachable set closed under every step + progress measure, kernel-evaluated) with the pattern regenerated from /repo by a go/ast extractor + Shutdown injection at 21 instants of the real sources",
        "level_text": "PLACEHOLDER", "level_note": LEVEL_NOTE_COMMON, "explanation": "PLACEHOLDER",
    },
    "C09": {
        "suites": [("hubburst", 2500, 30000)], "props": ["C09"], "level": "other",
        "projection": proj_forkable, "nontrivial": lambda suite, case, impl: any(l.startswith("impl b newirr") for l in case["lines"]),
        "rule": "same cases as C05; non-trivial = some burst by number starts at or below the hub LIB (new+irreversible prefix)",
        "trusted_base": FORKABLE_TB,
        "technique": "Lean 4 model of blocksFromNum/blocksFromNumWithForks/LowestBlockNum/Linkable + snapshot monitor (Lean) + differential correspondence",
        "level_text": "PLACEHOLDER", "level_note": LEVEL_NOTE_COMMON, "explanation": "PLACEHOLDER",
    },
    "C18": {
        "suites": [("forkable", 3000, 40000)], "props": ["C18"], "level": "other",
        "projection": proj_forkable, "nontrivial": nt_forkable, "rule": FORKABLE_RULE, "trusted_base": FORKABLE_TB,
        "technique": "Lean 4 model of the ForkDB window and lookups + query monitor (Lean) after every block + differential correspondence of AllIDs/AllBlocksAt/GetBlockByHash/CanonicalBlockAt/HeadInfo/LowestBlockNum",
        "level_text": "PLACEHOLDER", "level_note": LEVEL_NOTE_COMMON, "explanation": "PLACEHOLDER",
    },
    "C20": {
        "suites": [("server", 1500, 20000)],
        "props": ["C20"],
        "level": "proof",
        "technique": "Lean 4 theorems on an atomic-operation model of the server (invariant by induction over any push/recv interleaving, refinement of a subscriber's stream to burst++pushes) + differential correspondence through verif-tagged accessors",
        "level_text": "stream_prefix proves for every interleaving of pushes and receives (every consumer speed) that a subscriber's received+queued blocks are burst++later pushes in order, complete until overflow; push_sub_inv/push_closed_frozen give closed-exactly-once and nothing-after-close; push_pointwise gives isolation; burst_spec/burst_negative/subscribe_spec give totality over all signed bursts; bufPush_* give the window clauses; send_never_blocks is the arithmetic core of the non-blocking send. Operations are atomic in the model (what the RWMutex provides); goroutine-level interleavings inside an operation are covered by the concurrent stress run of the thorough tier only.",
        "level_note": LEVEL_NOTE_COMMON + "atomicity of PushBlock vs subscribe/unsubscribe (sync.RWMutex) and of channel operations is assumed, single producer; the Go scheduler/memory model is not modelled.",
        "rule": "cases = one server (unbuffered or buffer size 0-8) driven by 5-45 generated ops (push incl. repeated ids, subscribe with burst from {-2^63,-1,0,0..9,2^63-1}, unsubscribe, non-blocking recv, Ready, buffer ids); 1 in 6 cases additionally overflows one never-reading subscriber by 215 pushes and drains it; distinct = sha1 of header+ops; non-trivial = contains push, subscribe and recv",
        "nontrivial": nt_server,
        "explanation": "model outputs compared op by op with the real server; an independent per-subscriber monitor checks burst++pushes order, overflow-close and window on the implementation's answers",
        "assumptions": ["single producer goroutine", "RWMutex and channel semantics of the Go runtime"],
    },
    "C17": {
        "suites": [("gates", 4000, 80000)],
        "props": ["C17"],
        "level": "proof",
        "technique": "Lean 4 theorems (latch fold = suffix, by induction over the input) + differential correspondence of all gates/gators on generated event sequences",
        "level_text": "forwarded_eq_suffix proves, for every input sequence, gate kind, target, gate type, hold-off limit and first-streamable-block value, that what reaches the wrapped handler is exactly the suffix starting at/after the first triggering event; holdoff_spec places the hold-off error; irreversible_ignores, below_first_streamable_inclusive, gator_spec, tripper_once cover the remaining clauses. The same suffixSpec/holdErrs functions are evaluated on the implementation's forwarded list on every run.",
        "level_note": LEVEL_NOTE_COMMON + "wall clock replaced by an explicit age parameter (harness uses far-past/far-future block times); the wrapped handler does not fail; obj is always a *ForkableObject for the irreversible gates (the code type-asserts it).",
        "rule": "cases = one gate/gator/filter/tripper instance fed 1-14 generated events (steps New/Undo/Irreversible/NewIrreversible/Stalled, ids incl. the target repeated/absent/empty/zero-id, numbers around the target incl. repeats and decreases, far-past and future block times; targets 0-11, fsb 0-3, hold-off 0/1/2/3/5/15000, inclusive/exclusive); distinct = sha1 of header+events; non-trivial = at least 3 events and at least two different outcomes (held back / forwarded / hold-off error)",
        "nontrivial": nt_gates,
        "explanation": "theorems are over all finite event sequences; the correspondence ties the step function to the Go ProcessBlock/Pass methods",
        "assumptions": ["the wrapped handler returns nil", "events given to irreversible gates carry *forkable.ForkableObject"],
    },
    "C14": {
        "suites": [("cursor", 4000, 80000)],
        "props": ["C14"],
        "level": "proof",
        "technique": "Lean 4 theorems on a byte-level model of Cursor.String/FromString (split/join inverse, decimal codec inverse) + differential correspondence incl. malformed and opaque inputs",
        "level_text": "Round trip (roundtrip, opaque_roundtrip), layout choice (layout, short_layout_loses), and decoder behaviour on arbitrary byte strings (fromString_basic, reencode_equiv) are kernel-checked theorems for all ids/heights; the decoder model has no crash outcome and the real decoders are run under recover on malformed/foreign input on every run. The opaque codec is an abstract round-tripping codec (hypothesis of opaque_roundtrip, checked dynamically).",
        "level_note": LEVEL_NOTE_COMMON + "strings.Split/strconv.ParseUint/ParseInt/%d modelled by hand-written byte functions; streamingfast/opaque treated as an abstract codec with dec(enc s)=s.",
        "rule": "cases = 1-5 ops: String/FromString/ToOpaque/CursorFromOpaque/IsOnFinalBlock on generated cursors (4 steps + invalid steps, ids incl. empty/non-UTF8/colon, heights from the 64-bit boundary pool, all aliasing patterns) and on malformed strings (mutated bytes, dropped/duplicated segments, +1/007/-0/2^64 numbers, wrong prefixes, random bytes, random base64, bit-flipped opaque tokens); distinct = sha1 of op lines; non-trivial = at least one successful decode among >= 2 ops",
        "nontrivial": nt_cursor,
        "explanation": "theorems quantify over all byte strings / all cursors; correspondence compares encoders byte for byte and decoders field for field",
        "assumptions": ["opaque.EncodeString/DecodeToString round-trip (checked on every generated string)"],
    },
    "C19": {
        "suites": [("range", 3000, 60000)],
        "props": ["C19"],
        "level": "proof",
        "technique": "Lean 4 theorems over UInt64 (split loop invariant by functional induction, interval arithmetic by omega) + differential correspondence of every Range method",
        "level_text": "Every clause of C19 is a kernel-checked theorem about the UInt64 model of range.go (Props/C19.lean: contains_spec, reachedEnd_spec, size_spec, next/previous_spec, isNext_iff, split_spec, split_total, parseRange_total) for all heights, flag pairs and chunk sizes; the both-exclusive Split clause is refuted by a kernel-checked witness and recorded as a known finding. The model is tied to /repo by running every method on boundary-pool inputs and diffing.",
        "level_note": LEVEL_NOTE_COMMON + "Go uint64 arithmetic = Lean UInt64; ParseRange modelled at byte level.",
        "rule": "cases = 1-6 ops on generated ranges (boundary pool 0,1,2^31±1,2^32±1,2^63±1,2^64-12..2^64-1 mixed with small/uniform heights, 4 flag pairs, chunk sizes from 1 to 2^64-1, malformed ParseRange byte strings); distinct = sha1 of the op lines; non-trivial = contains a Split into >=2 chunks, a ParseRange, an IsNext or a ReachedEndBlock op",
        "nontrivial": nt_range,
        "explanation": "Lean theorems over UInt64 (all 2^64 heights, all flag pairs, all chunk sizes) about a hand-written model of range.go; the model is tied to /repo by differential execution of every Range method on generated inputs; F-C19d (both-exclusive split) is a recorded finding and the Split union theorem is stated for the other three flag pairs",
        "assumptions": ["Go's uint64 arithmetic = Lean UInt64 arithmetic", "ParseRange modelled at byte level: non-ASCII bytes are removed by the regexp like any other non-alphanumeric rune"],
    },
}
