"""Per-property configuration of bin/check: suites (name, quick n, thorough n), Lean theorem modules,
projection of the line protocol, what counts as a non-trivial case, claimed level."""


def nt_range(suite, case, impl):
    # non-trivial: a split into >= 2 chunks, or an op on a value within 2 of a bound, or a parse
    for l in case["lines"]:
        if l.startswith("impl ok ") and ";" in l:
            return True
        if l.startswith("op parse") or l.startswith("op isnext") or l.startswith("op reached"):
            return True
    return False


HOOK_COMMITS = ["4913322", "a563a34"]

LEVEL_NOTE_COMMON = "Trusted: Lean 4.33 kernel (axioms propext, Classical.choice, Quot.sound only; audited per theorem on every run); the hand-written model, whose agreement with /repo is checked by differential execution on every run, not proved; the Go harness/canonicalisation; "

def nt_cursor(suite, case, impl):
    # non-trivial: a decode that succeeds, or an encode with an aliasing pattern / malformed input that is rejected
    return any(l.startswith("impl ok") for l in case["lines"]) and len(case["lines"]) >= 4


def nt_gates(suite, case, impl):
    # non-trivial: the gate both held something back and forwarded something, or raised the hold-off error
    fw = [l for l in case["lines"] if l.startswith("impl ")]
    vals = set(l.split()[-1] for l in fw) | set(l.split()[1] for l in fw)
    return len(vals) >= 2 and len(fw) >= 3


def nt_server(suite, case, impl):
    ops = [l.split()[1] for l in case["lines"] if l.startswith("op ")]
    if suite == "serverconc":
        return len(ops) >= 2
    return "sub" in ops and "push" in ops and "recv" in ops


def proj_forkable(pid, suite, case, lines):
    """Per-property projection of the forkable line protocol (same function for impl and model lines)."""
    if suite == "hubburst":
        # burst answers (events with all cursor fields, served/refused, snapshots); live events only for C04
        keep = ("b", "bret", "bf", "canon", "lowest", "panic")
        return [l for l in lines if l.split()[:1] and (l.split()[0] in keep or (pid == "C04" and l.split()[0] == "ev"))]
    if suite != "forkable":
        return lines
    out = []
    for l in lines:
        w = l.split()
        if not w:
            continue
        if pid == "C01":
            if w[0] == "ev" and w[1] in ("new", "undo"):
                out.append(" ".join(w[:4]))
            elif w[0] == "ret":
                out.append(l)
        elif pid == "C02":
            if w[0] == "ev" and w[1] in ("irr", "stalled"):
                out.append(" ".join(w[:5] + w[7:9]))
        elif pid == "C03":
            if w[0] == "q" and w[1] == "head":
                out.append(l)
            elif w[0] == "ev" and w[1] in ("irr", "new", "undo"):
                out.append(" ".join(w[:3]))
            elif w[0] == "twin":
                out.append(l)
        elif pid == "C04":
            if w[0] == "ev":
                out.append(l)
        elif pid == "C18":
            if w[0] == "q":
                out.append(l)
        else:
            out.append(l)
    return out


def nt_forkable(suite, case, impl):
    # non-trivial: the history contains at least one reorganisation (an Undo) or a LIB move (an Irreversible)
    return any(l.startswith("impl ev undo") or l.startswith("impl ev irr") for l in case["lines"])


FORKABLE_RULE = ("cases = generated block tree (3-14 blocks + root; forks at any height with bias 0-50%, skipped numbers, 1-2 never-linking orphans, "
                 "LIB declarations by policy lagging/jumping/per-branch speed/frozen, 1 in 12 trees with malformed LIB declarations, 1 in 10 roots with empty parent id) x arrival order "
                 "(creation order / windowed shuffle / full shuffle / by height) with 0-25% re-fed duplicates x configuration (exclusive / inclusive / hold-until-LIB discovery root, root block fed or not, "
                 "kept in {0,1,2,5,100}, all-blocks-trigger, filters 51/3/19/35, first streamable block = root or 0) x optional handler failure at call 0-3 of one block; "
                 "half of the failure-free cases are re-run under another kept value and with re-fed noise (twins); queries after every block. "
                 "distinct = sha1 of header+ops; non-trivial = at least one Undo or Irreversible event delivered")
FORKABLE_TB = ["Forkable.ProcessBlock / ForkDB modelled statement by statement in Model/Forkable.lean, Model/ForkDB.lean (Go maps as one keyed entry list, uint64 heights as Nat); EnsureBlockFlows and the unlinkable-block counters are not modelled (never enabled)"]

def nt_files(suite, case, impl):
    if suite == "dbin":
        return any(l.startswith("impl blk") for l in case["lines"]) and any(" trunc " in l or " corrupt " in l for l in case["lines"])
    return any(l.startswith("impl ok") or l.startswith("impl found") for l in case["lines"])


def nt_index(suite, case, impl):
    return sum(1 for l in case["lines"] if l.startswith("impl res ") and l not in ("impl res err", "impl res -")) >= 2


PROPS = {
    "C15": {
        "suites": [("index", 1500, 20000), ("indexsrc", 400, 6000)], "props": ["C15"], "level": "proof",
        "nontrivial": nt_index,
        "technique": "Lean 4 theorems (indexer invariant by induction over ascending blocks, bitmap-as-ascending-list algebra, scan = filter on sorted lists) + differential correspondence of BlockIndexer/GenericBlockIndexProvider over generated key assignments",
        "level_text": "written_files_exact: every index file written while feeding strictly ascending blocks from a boundary holds, per key, exactly the fed blocks of its range carrying that key; blocksInRange_spec/_mem/_ascending: the provider returns exactly the matching indexed blocks of [max(base,fsb), base+size), ascending; upper_bound_exclusive pins the bound the unfixed code got wrong. The file-source half of C15 (lookupBlockIndex / tweakRangeIndexResults / PassesFilter / fallback when the index ends) has a sequential model (FileSourceSeq.runWithIndex) tied to the real FileSource by the indexsrc suite (provider given as a table: nil / empty / numbers incl. skipped and out-of-range ones / index ending or with a gap; whitelisted blocks; start and stop anywhere) and an independent Lean monitor (ascending, each once, no indexed match between start and stop lost); no closed-form theorem yet.",
        "level_note": LEVEL_NOTE_COMMON + "roaring64 bitmaps modelled as ascending lists (finite sets); protobuf encoding of index files not modelled (files are records); MockStore without overwrite.",
        "rule": "cases = one BlockIndexer (index size = bundle x {1,2,3,10}, bundle in {1,2,5,10}, fsb 0-3, optional defined start block) fed 5-44 ascending blocks (skipped numbers, occasional jump over a whole index range, start on/off a boundary) with random subsets of 8 keys, then 1-3 providers (exact or prefix key filters, possibleIndexSizes lists incl. sizes below the bundle size) queried at every bundle base of the range (1 in 25 off boundary); distinct = sha1 of header+ops; non-trivial = at least two non-empty query answers",
        "explanation": "model answers compared op by op; an independent monitor recomputes, from the add ops alone, which blocks each query must return",
        "assumptions": ["roaring64 bitmap semantics = finite sets of uint64"],
    },
    "C16": {
        "suites": [("dbin", 400, 4000), ("oneblock", 3000, 40000)], "props": ["C16"], "level": "proof",
        "nontrivial": nt_files,
        "technique": "Lean 4 theorems on a byte-level model of the dbin framing and of the file-name codec (append/prefix lemmas, decimal and split inverses) + differential correspondence on intact, truncated and corrupted files with proto.Unmarshal as oracle",
        "level_text": "roundtrip, truncation (every truncation point: header error or a correct prefix, end-of-file only at a frame boundary), damage_after_prefix (frames before a damaged byte are returned unaltered), decodes_only_complete and filename_roundtrip are kernel-checked for all byte strings; protobuf is an abstract codec (hypothesis dec m = some (d m), checked dynamically). 'Never an altered block' is false for a corrupted byte inside a message (no checksum) and for ids containing '-': both are known findings with kernel-checked/recorded witnesses.",
        "level_note": LEVEL_NOTE_COMMON + "dbin library (io.ReadFull zero-padding) modelled by readN; protobuf marshal/unmarshal abstract; dstore.MockStore walk order = sorted names.",
        "rule": "dbin cases = 1-4 generated blocks (payload or legacy PayloadKind/PayloadBuffer, heights from the 64-bit pool, 0-59 payload bytes, 1 in 25 with an all-default block marshalling to zero bytes) written with DBinBlockWriter, then read intact, at 6 (thorough 40) truncation points biased to header/prefix/tail boundaries and with 6 (40) single-byte corruptions (header, first length prefix, anywhere; values 0,1,2,0x7f,0x80,0xff,random); variants whose damaged length prefix exceeds 16 MiB are skipped for speed and counted. oneblock cases = 1-4 ops of file-name build/parse/round-trip (ids 0-64 chars incl. empty and with '-', heights up to 2^64-1, mutated names) and FetchBlockFromOneBlockStore over generated stores. distinct = sha1 of ops; non-trivial = dbin: at least one block read from a damaged file; oneblock: at least one successful parse/fetch",
        "explanation": "theorems over all byte strings; correspondence compares every Read() result and end class with the model (oracle = dbin library split + proto.Unmarshal of each message)",
        "assumptions": ["proto.Marshal/Unmarshal round-trip (checked on every written block)", "ACCEPT_SOLANA_LEGACY_BLOCK_FORMAT unset"],
    },
    "C01": {
        "suites": [("forkable", 3000, 40000)], "props": ["C01"], "level": "proof",
        "projection": proj_forkable, "nontrivial": nt_forkable, "rule": FORKABLE_RULE, "trusted_base": FORKABLE_TB,
        "technique": "Lean 4 theorems on a statement-level model of Forkable.ProcessBlock/ForkDB (invariant by induction over histories, soundness of the ForkDB walks, chain-switch shape, failure simulation) + consumer-discipline monitor (Lean) on the implementation's traces + differential correspondence",
        "level_text": "Props/C01: push_pop_consumer_holds_one_chain — the consumer of the statement, literally (pushes on New, pops on Undo, ignores every other event): fed the events of any history of blocks of one consistent block tree by a forkable that knows its LIB, it never sees a New that does not extend its tip nor an Undo that is not its tip, and at every moment holds one parent-linked chain rooted at the starting LIB (derived from the next theorem through Lemmas/StackConsumer.follows_run). history_discipline_consistent — for every history (any length, order, duplicates, gaps, forks, orphans, blocks below the LIB or arriving before their parents) of blocks drawn from one consistent block tree (UOK: ids identify blocks, non-empty ids, heights grow along parent links) whose LIB declarations resolve to stored ancestors (LibHistOK), fed to a forkable that knows its LIB (Inv; init_inv / init_inv2 for an exclusive starting LIB), the delivered events drive a push/pop consumer (New must name the tip or the LIB as parent, Undo must be the tip, Irreversible must be the oldest pending block) without ever failing and leave it exactly on the chain from the LIB to the last block sent. The hypotheses are on the input only; the proof is an induction over the history with the invariants Inv (consumer's chain = path LIB -> last sent block, heights, cache) and Inv2 (every sent stored block has a final, a sent stored, or a gone-for-good parent — which is what makes 'a purged block never comes back' provable). history_discipline_inclusive — the same for a forkable started on an inclusive LIB: the first block delivered is either the starting block itself (New and Irreversible at once, inclusive_root_step) or a block the consumer resting on the starting LIB accepts, and the discipline holds from then on. history_discipline_discovery — the same for a hold-until-LIB forkable that discovers its LIB (the configuration ForkableHub builds): nothing is delivered until a block's declared LIB resolves to a stored ancestor L; that block delivers the chain from L (exclusive) to itself as New and announces L itself (discovery_step / DiscoveryStep give the exact shape, also for a block that is its own LIB), after which the stream follows the discipline as for a known LIB. step_discipline / history_discipline are the same with the state-side hypothesis SentClosed instead of the universe. handler_error_returned_at_once (no hypothesis at all): with a handler failing on call k the handler saw exactly the first k+1 events of the failure-free run and the error is returned. refeed_delivers_nothing / below_lib_dropped: a stored block or a block below the LIB changes nothing. Every hypothesis has a Boolean check with a kernel-checked soundness theorem (stepOKb_sound, uokB_sound, libHistB_sound); a history with a fork, an undo/redo switch, a duplicate, an orphan and two LIB moves is discharged end to end by kernel evaluation, and the driver reports for every run how many steps the theorems cover (thm.* counters). Outside the theorems: LIB discovery without hold-until-LIB, handlers that filter out New/Undo/Irreversible, malformed LIB declarations, blocks with empty ids — there the property is decided by the Lean trace monitor on the implementation's trace plus the correspondence.",
        "level_note": LEVEL_NOTE_COMMON,
        "explanation": "theorems for all inputs within the stated hypotheses; the model-implementation tie and the configurations outside the hypotheses are decided by differential execution + Lean trace monitors on the implementation's own trace (3000/40000 generated histories per run)",
    },
    "C02": {
        "suites": [("forkable", 3000, 40000)], "props": ["C02"], "level": "proof",
        "projection": proj_forkable, "nontrivial": nt_forkable, "rule": FORKABLE_RULE, "trusted_base": FORKABLE_TB,
        "technique": "Lean 4 model of Forkable.ProcessBlock + finality monitor (Lean) on the implementation's traces + differential correspondence",
        "level_text": "Props/C02 with C01's history_discipline: the consumer accepts an Irreversible event only for its oldest pending block and then rests on it (irreversible_is_oldest_pending), so along every history inside C01's hypotheses the announced blocks are in order the oldest pending blocks of the consumer's chain: a gap-free parent-linked chain extending the LIB; a block that left the pending list cannot be undone (undo_is_newest_pending, final_leaves_pending: the pending list has no duplicates and never contains the LIB). segment_is_path: whatever the buffer holds, the announced segment is a parent-linked path of stored blocks from the old LIB to the new one; bounded_by_declared_lib: its top carries exactly the LIB number the head declares; stalled_off_segment: stalled blocks are stored blocks off the segment with heights inside it (hence at or below the final height, never final). 'Reported at most once', the first announcement being the starting LIB itself (discovery / inclusive start) and malformed LIB declarations are decided by the Lean finality monitor on the implementation's trace.", "level_note": LEVEL_NOTE_COMMON, "explanation": 'as C01',
    },
    "C03": {
        "suites": [("forkable", 3000, 40000)], "props": ["C03"], "level": "proof",
        "projection": proj_forkable, "nontrivial": nt_forkable, "rule": FORKABLE_RULE, "trusted_base": FORKABLE_TB,
        "technique": "Lean 4 reference fork-choice specification evaluated against the implementation after every block + retention/noise twin runs + differential correspondence",
        "level_text": "Props/C03 tip_rule (same hypotheses as C01): after every incoming block either nothing was delivered and the tip is unchanged, or the block was not stored before, triggers (triggers_rule: higher than the previous tip, or any height in all-blocks-trigger mode) and is the new tip; tip_is_top: the tip is the top of the consumer's chain; no_move: blocks below the LIB, stored blocks and invalid blocks never move it; lib_follows_declared: the block the LIB moves to carries exactly the tip's declared LIB number, and it moves only when a path of stored blocks leads there (C02 segment_is_path). The 'consequently' clause (outputs independent of retention and of re-fed / below-LIB blocks) is decided by twin runs of the implementation compared by the driver and by the Lean fork-choice reference specification evaluated after every block.", "level_note": LEVEL_NOTE_COMMON, "explanation": 'as C01',
    },
    "C04": {
        "suites": [("forkable", 3000, 40000), ("hubburst", 1500, 15000)], "props": ["C04"], "level": "proof",
        "projection": proj_forkable, "nontrivial": nt_forkable, "rule": FORKABLE_RULE, "trusted_base": FORKABLE_TB,
        "technique": "Lean 4 model computing every cursor field + cursor monitor (Lean) on the implementation's traces + differential correspondence of all cursor fields",
        "level_text": "Props/C04: head_is_incoming_block — for every state, block and handler failure point every delivered event names the incoming block as cursor head (no hypothesis); irreversible_lib_is_itself, switch_events_lib — cursor LIB of Irreversible events is the block itself, of Undo/re-delivered New events the forkable's cursor LIB, and all undos of a batch name the same junction; junction_is_common_ancestor (buffer of well-formed blocks with growing heights): the undo list is the consumer's chain above the junction, the redo list the adopted chain above it, the junction the top of their common part, i.e. what the consumer rests on after the undos; segments_meet_at_junction holds for any buffer. Cursor step/block = the event's is the encoding of the model's events and is compared field by field with the implementation (CURSORMISMATCH marker). cursor_lib_of_every_event — for a forkable that knows its LIB, every Undo and New event carries the buffer's LIB as it was when the block came in (the last block announced irreversible or the starting LIB: invariant Inv.seen), Irreversible events carry themselves, nothing else is delivered but Stalled events (any handler failure point); lib_height_never_decreases — one ProcessBlock leaves the LIB where it was or moves it to a higher stored block. cursor_lib_not_above_block / history_cursor_lib_not_above_block — along every history of blocks of one consistent block tree (hypotheses on the input only, as C01.history_discipline_consistent) the cursor LIB of every New event is strictly below the delivered block's height and the cursor LIB of every Irreversible event is the block itself (from Lemmas/NewHeights.processBlock_new_above_lib: delivered blocks lie on the path from the LIB to the incoming block, heights grow along it, and the cached chain carries the stored heights — the invariant Faithful now includes heights); new_events_deliver_redo_or_chain_blocks. The same for the hold-until-LIB discovery step and the burst / file cursors is decided by the Lean cursor monitor on every trace and by the C05/C06/C09 suites.", "level_note": LEVEL_NOTE_COMMON, "explanation": 'as C01',
    },
    "C05": {
        "suites": [("hubburst", 2500, 30000)], "props": ["C05"], "level": "proof",
        "projection": proj_forkable, "nontrivial": lambda suite, case, impl: any(l.startswith("impl b undo") or l.startswith("impl b irr") for l in case["lines"]),
        "rule": "cases = forkable histories as in C01-C04 (hub-like hold-until-LIB configuration 2 times in 3, all steps delivered); after a third of the blocks: a canonical snapshot, 2 requests by number around the window, sometimes a with-forks request, and up to 3 resumptions from cursors delivered earlier (New, Undo, 1/3 of the Irreversible ones; biased to recent ones), a third of them also through-cursor from a start around/below the cursor block. distinct = sha1 of header+ops; non-trivial = some burst contains an Undo or an Irreversible event",
        "trusted_base": FORKABLE_TB,
        "technique": "Lean 4 model of blocksFromCursor/blocksThroughCursor + pure-consumer monitor (Lean): burst applied to the consumer state at the cursor must end on the hub's live chain + differential correspondence of every burst",
        "level_text": "Props/C05 (kernel-checked): resume_end_to_end_hub — hypotheses on the inputs only (hub forkable started empty, any consistent history, a New cursor retained on the hub chain, any later history): burst ++ everything delivered afterwards is accepted by the consumer that stood at the cursor. resume_new_cursor_on_hub_chain — state level: for every hub state satisfying the forkable invariant (pending chain P) and every New cursor whose block and LIB are retained on the hub's chain (cursor LIB not above the hub LIB), the hub serves the cursor and the burst takes the consumer that stood at the cursor exactly onto the hub's own consumer state <LIB, P>; resume_undo_cursor_on_hub_chain — the same for an Undo cursor whose block is canonical again; resume_fork_cursor_on_hub — for a cursor on a forked-out block that the hub serves: undo walk to the junction, then as the New cursor on the junction; resume_equals_never_disconnected — with C01's history theorem everything delivered afterwards continues the discipline; non-vacuity examples by kernel evaluation. On an abstract chain: burst_takes_consumer_to_hub_chain — for a New cursor whose block and LIB lie on the hub's retained canonical chain, the burst applied to the consumer that stood at the cursor (resting on the cursor LIB, holding the canonical blocks up to the cursor block) ends exactly on the hub's current chain and final block: finalised pending blocks are announced oldest first, missed final blocks arrive new-and-irreversible, missed reversible blocks as New, nothing twice (the chain above the cursor LIB is split by height into four zones; the consumer semantics CS is the one of C01 extended with new-and-irreversible events). Also: nothing_at_or_below_cursor_lib, everything_above_cursor_block, fastPath_in_chain_order, nothing_new_below_cursor_block, final_events_exact (a final-only consumer gets exactly the canonical final blocks above the cursor LIB), refused_below_window / refused_without_chain (no source rather than a partial one), fork_cursor_shape (cursor on a fork: undo walk, newest first, all naming the junction, then the burst of the junction cursor). For Undo cursors and cursors on forks the consumer-level statement is decided by the Lean consumer-at-cursor monitor over every burst of the correspondence suite.",
        "level_note": LEVEL_NOTE_COMMON, "explanation": "kernel-checked theorems about the burst functions for all inputs + a Lean pure-consumer monitor evaluated on the implementation's bursts (2500/30000 histories with up to 3 resumptions each) + differential comparison of every burst with the model",
    },
    "C06": {
        "suites": [("resolver", 2000, 25000)], "props": ["C06"], "level": "proof",
        "nontrivial": lambda suite, case, impl: any(l.startswith("impl ev undo") or l.startswith("impl ev irr") for l in case["lines"]),
        "rule": "cases = a generated tree (4-17 blocks, forks with bias 10-50%, skipped numbers, LIB policies) fed to a real Forkable to obtain real cursors and the final canonical chain; the chain is written to merged bundles (size 2/3/5/10, real DBinBlockWriter), every forked block to the forked store as a one-block file (each missing with probability 0/0/15/40%, 1 in 25 unreadable), ids with an 18-char common prefix in a quarter of the cases (16-char truncation in file names); one delivered New/Undo/Irreversible cursor (half of the time one whose block ended up forked out) is resumed through the real NewFileSourceFromCursor with a stop block (1 in 5: NewFileSourceThroughCursor from a start block). distinct = sha1 of header+body; non-trivial = the resumption delivers an Undo or an Irreversible event",
        "technique": "Lean 4 model of cursorResolver + FileSourceSeq + pure-consumer monitor (Lean): events applied to the consumer state implied by the cursor must end with an empty pending stack on the last canonical block + differential correspondence with real stores",
        "level_text": "Props/C06 gives the complete output of the cursor resolver for every list of canonical blocks: on_chain_new_cursor / on_chain_undo_cursor — blocks below the cursor block are held back; when the cursor block arrives the canonical blocks above the cursor LIB held so far are announced Irreversible (sendBetween_spec: exactly those with a number in (LIB, cursor block], in file order, each carrying itself as cursor head and LIB) and every later block is delivered once, in order, new-and-irreversible; fork_cursor — for a cursor on a fork: the undos newest first naming the junction, the finality replay up to the junction, the new-and-irreversible blocks above it, then every later block; resolve_sound — undone blocks come from readable one-block files at or after the cursor LIB number and the junction is a canonical block seen; unresolvable — if a needed forked block is missing or unreadable nothing at all was delivered and the run ends with the resolution error. That the undone blocks are exactly the consumer's pending forked blocks relies on the forked-blocks store being complete for the history: decided by the Lean consumer-at-cursor monitor on real stores (resolver suite).", "level_note": LEVEL_NOTE_COMMON, "explanation": 'theorems for all canonical lists and stores; the tie to cursor_resolver.go and to real dstore stores/dbin files is differential (2000/25000 resumptions from real cursors)',
    },
    "C10": {
        "suites": [("filesrc", 500, 6000)], "props": ["C10"], "level": "proof", "facts": True,
        "nontrivial": lambda suite, case, impl: sum(1 for l in case["lines"] if l.startswith("impl blk")) >= 3,
        "rule": "cases = a linear chain of 4-29 blocks (skipped numbers 1 in 3) laid out in bundles of size 1/2/3/5/10 (real DBinBlockWriter, empty bundle files for ranges without blocks), start anywhere (mid-file, on a missing number, on the first base), stop block anywhere or none (then the run ends waiting for the next file), 1-8 preprocessor threads with pseudo-random 0-450 microsecond delays per preprocess call, optional legacy leading block below the bundle base, a broken parent link, a missing bundle file, a handler failure at call 0-5; distinct = sha1 of header+body; non-trivial = at least 3 blocks delivered",
        "technique": "Lean 4 sequential model of FileSource (FileSourceSeq) + delivery monitor (Lean) + differential correspondence under randomised preprocess delays and thread counts",
        "level_text": "Props/C10 (sequential content, all stores, start/stop blocks, bundle sizes, handler budgets): run_spec — the delivered sequence is a prefix of the stored eligible blocks (first block at or above the start block onwards, bundles in ascending order) in exactly stored order, each once, parent-linked; it is the whole of it when the run ends with stop-block-reached; on a non-sequential error it stopped exactly before the offending block (the block after the delivered prefix, whose parent is not the last delivered id); handler_error_stops_file. 'For every relative timing of the parallel preprocessors' and 'paired with the preprocessor result computed for that same block': pipeline_order_any_schedule — in the interleaving model of streamReader's skeleton (one result channel per block queued in read order on a bounded channel, workers finishing in any order, a forwarder waiting for the oldest queued result) the consumer receives, for every schedule, a prefix of the blocks in read order each with its own preprocess result, and all of them when nothing is left; pipeline_no_deadlock; pipeline_skeleton_in_source ties the skeleton to /repo (go/ast facts resultChanQueuedInReadOrder, forwarderSequential, regenerated every run). The per-file ordering (launchReader / fileStream) is not modelled as an interleaving system; the real pipeline is also run with 1-8 preprocessor threads and pseudo-random delays and must deliver exactly the model's sequence with matching preprocess tags.", "level_note": LEVEL_NOTE_COMMON, "explanation": 'theorems about the sequential model; timing independence by differential runs under randomised delays/thread counts (500/6000 cases)',
    },
    "C07": {
        "suites": [("stream", 480, 4800)], "shards": {"stream": 12}, "props": ["C07"], "level": "proof", "suite_timeout": 2400,
        "nontrivial": lambda suite, case, impl: any(l.startswith("impl ev newirr") for l in case["lines"]) and any(l.startswith("impl ev new ") for l in case["lines"]),
        "rule": "cases = a generated tree (22-37 blocks, forks, skipped numbers, LIB policies) whose canonical chain crosses one 100-block bundle boundary; merged files = the complete bundle below the boundary (real DBinBlockWriter), forked one-block files for every forked block (30% missing in a quarter of the cases); a real ForkableHub (kept 100 mostly, else 0/1/2/5) bootstrapped through one one-block pass up to a moment t0 at which its LIB has reached the end of the files; a real stream.New(...).Run started by number (anywhere from the root to the hub head, negative, at/after the stop block), from a delivered New/Undo/Irreversible cursor (half of them on blocks that end up forked out) or through a target cursor, default/final-only/custom filters, stop block in the files / on the boundary / in the hub window / on a skipped number / none; the remaining blocks reach the hub either inside the handler of delivery #k or when the stream is quiescent (the schedule). distinct = sha1 of header+body; non-trivial = the run delivers blocks from files and from the live hub (a handoff happened)",
        "technique": "Lean 4 simulation model of JoiningSource+Stream over the Forkable/HubBurst/FileSourceSeq/Resolver models with an explicit schedule of hub pushes + pure-consumer monitor (Lean) + differential correspondence against the real stream/hub/file source",
        "level_text": "Props/C07 (kernel-checked): handoff_end_to_end_hub / handoff_end_to_end — hypotheses on the inputs only: the hub's forkable (started empty with hold-until-LIB, or on a known LIB) fed any history of blocks of one consistent block tree, a request for a block it retains at or below its LIB whose first answer block is the child of the last merged block, any later history: merged blocks ++ burst ++ everything delivered afterwards is accepted by the push/pop consumer (handoff_by_number_default_filter: also by the consumer behind the default step filter, which holds one parent-linked chain). handoff_by_number_is_seamless — consumer level, for a start by block number: for every hub state satisfying the forkable invariant (pending chain P), every request for a block at or below the hub LIB retained on its chain, every parent-linked run of merged blocks whose last block is the parent of the first burst block, and every later history of blocks of one consistent tree, the file deliveries ++ the hub burst ++ everything the hub delivers afterwards is accepted by the push/pop consumer, which after the burst stands exactly on <LIB, P> (nothing missing, nothing twice) — built on Seam.headSegment_shape (the hub's retained chain = kept final blocks ++ entries of P, from the invariant) and C01's history theorem; non-vacuity example discharged by kernel evaluation. Simulation level (every store, hub, schedule of hub pushes, configuration): burst_starts_at_requested_block + handoff_replaces_file_side — at the handoff the file event is dropped and the hub's burst starts with exactly that block number, and the file side is discarded (LiveClean, simLoop_prefix: after the handoff no file event is ever delivered; deliveries are never retracted or reordered); non_new_event_is_delivered + undo_is_not_joinable — an Undo or Irreversible event coming out of the cursor resolver never triggers the handoff and is always delivered (the dropped-undo defect fixed by f47de1c). The consumer-level statement (one sequence following the discipline from the consumer state implied by the start point, every canonical block exactly once) depends on files and hub being views of one chain and is decided by the Lean stream monitors on the implementation's runs.", "level_note": LEVEL_NOTE_COMMON, "explanation": 'kernel-checked lemmas about the simulation model + Lean consumer monitors on runs of the real stream/hub/file source under explicit schedules (70/1500 runs)',
    },
    "C13": {
        "suites": [("stream", 480, 4800), ("filesrc", 300, 4000)], "shards": {"stream": 12}, "props": ["C13"], "level": "proof", "suite_timeout": 2400,
        "nontrivial": lambda suite, case, impl: any(l.startswith("impl send stop") or l.startswith("impl send invalidarg") or l.startswith("impl fsend stop") for l in case["lines"]),
        "rule": "same cases as C07, plus the file-source cases of C10 (stop blocks anywhere, also on bundle boundaries inside the files); non-trivial = the stream / file source ended with stop-block-reached or an invalid-argument error",
        "technique": "Lean 4 model of Stream option handling (negative start, start/stop check, final-only cursor check, filter and stop handlers as list transformers) + monitors (nothing above the stop block, filters only remove) + differential correspondence",
        "level_text": "Props/C13: run_respects_bounds — for every run of the stream model (any files, hub, schedule of hub pushes, cursor, options) every delivered event passed the step filter, with a stop block no delivered block is above it and a delivery at the stop height is the last one (stop_block_is_last); filter_only_removes, no_stop_keeps_all, stop_block_delivered — the handler chain as a list transformer; default_filter / final_only_filter / custom_filter — which steps pass; negative_start / nonneg_start — start = max(first streamable, head − distance) saturating at 0; start_after_stop_rejected, final_only_refuses_non_final_cursor — rejected as invalid argument before any source is created. 'The stop block is delivered when it exists' across files/live is decided by the stream monitor.", "level_note": LEVEL_NOTE_COMMON, "explanation": 'theorems for all runs of the model; tie to stream.go by differential runs against the real stream',
    },
    "C11": {
        "suites": [("faults", 500, 6000), ("stream", 360, 3600), ("resolver", 400, 6000)], "shards": {"stream": 12, "faults": 4}, "props": ["C11"], "level": "fault_enumeration", "suite_timeout": 2400,
        "nontrivial": lambda suite, case, impl: any(l.startswith("impl blk") or l.startswith("failnum") for l in case["lines"]),
        "rule": "cases = a file source over a generated chain in bundles (size 2/3/5/10, 1-6 preprocessor threads, start in the first half, stop near the end) with exactly one injected fault: OpenObject of one bundle fails; FileExists of one bundle fails persistently; the bytes of one bundle are damaged (bad header, length prefix enlarged, truncation inside a message, message made undecodable, I/O error while reading) at a chosen message; the preprocessor fails on one block; the handler fails at call k; plus the stream cases of C07 in which the user handler fails on one block (in half of them on the stop block itself). distinct = sha1 of header+body; non-trivial = at least one block was delivered before the fault / a handler failure was injected",
        "technique": "Lean 4 sequential model giving the allowed outcome set per fault (gap-free prefix bounded by the fault position + error class) + fault-injecting store around the real FileSource + watchdog for Run not returning + late-handler-call detection",
        "level_text": 'Props/C11 (models): handler_error_ends_run + streamFile_budget — with a handler failing on call k exactly k+1 blocks reached it and they are an in-order parent-linked prefix; chain_break_ends_run — a broken parent link ends the run before the offending block; unresolvable_cursor_ends_run — no delivery at all; ended_is_final — once the stream has an outcome nothing changes; forkable_handler_error. That the real Run returns and Terminated is reached with the right error class is decided by enumerating faults (store open/exists/read at a chosen message with 5 damage modes, preprocessor, handler call k) against the real FileSource with a watchdog, accepting exactly the outcome set the model allows for the fault position; defects found this way are fixed (1d678d1, 70dac5d, 655b8c9).', "level_note": LEVEL_NOTE_COMMON, "explanation": "theorems on the sequential models + one injected fault per case against the real code, outcome compared with the model's allowed set (500/6000 cases)",
    },
    "C08": {
        "suites": [("hubsubs", 150, 3000)], "props": ["C08"], "level": "proof", "facts": True,
        "nontrivial": lambda suite, case, impl: sum(1 for l in case["lines"] if l.startswith("impl sub")) >= 3,
        "rule": "trials = a real, ready ForkableHub holding a 20-block chain; 2-16 goroutines request SourceFromBlockNum (start 5..18) at the same instant while the feeder goroutine pushes 5-20 live blocks; then more blocks are pushed; every running subscriber must have received exactly the New blocks from its start to the final head, contiguous and once; in a third of the trials one subscriber never reads and must be dropped after 100+burst undelivered events while the others are unaffected. distinct = sha1 of header+ops; non-trivial = at least 3 subscribers",
        "technique": "Lean 4 interleaving model of concurrent registrations (finite reachable set closed under every step, by kernel evaluation) parameterised by lock facts regenerated from /repo by a go/ast extractor + barrier stress of the real hub",
        "level_text": 'Props/C08: registrations_never_lost — for every interleaving of concurrent subscription requests with block processing in the lock-level model whose lock kinds are regenerated from /repo (hub_facts_safe), every registration is in the subscriber list when the operation completes and every later block reaches every registered subscriber; lost_registration_counter is the kernel-checked schedule of the unfixed code (1154969); push_never_blocks: a full subscriber is dropped, never waited for. The model is finite and its reachable set is computed and checked closed by kernel evaluation; goroutine scheduling inside the modelled atomic steps is sampled by the barrier stress of the real hub (exactly-once, in-order delivery to 2-16 concurrent subscribers, one slow subscriber dropped without affecting others).', "level_note": LEVEL_NOTE_COMMON, "explanation": 'all interleavings of the abstract lock-level model (kernel-evaluated closure), model parameters extracted from the source on every run; the Go runtime is sampled, not modelled',
    },
    "C12": {
        "suites": [("shutdown", 12, 200)], "props": ["C12"], "level": "proof", "facts": True,
        "nontrivial": lambda suite, case, impl: True,
        "rule": "each case runs 21 scenarios against the real sources: JoiningSource (Shutdown before Run, from inside the live / file / join factory, inside a handler call, asynchronously), EternalSource (before Run, inside the 1st/2nd factory call, in a handler call, during the restart delay; restart must resume from the last accepted block), MultiplexedSource (2-4 inner sources pushing concurrently: handler failure, asynchronous Shutdown, Shutdown while connecting; handler calls must never overlap, all inner sources must be shut down), hub subscription (before Run, in handler, async) and FileSource (before Run, in handler, async, while waiting for a missing file); watchdog 4 s for Run returning, Terminated, no handler call after Terminated. distinct = sha1 of the case; every case is non-trivial",
        "technique": "Lean 4 interleaving model of shutter.Shutdown vs the obtain/register/run pattern (reachable set closed under every step + progress measure, kernel-evaluated) with the pattern regenerated from /repo by a go/ast extractor + Shutdown injection at 21 instants of the real sources",
        "level_text": "Props/C12: shutdown_reaches_inner, no_inner_source_leaked, no_deadlock, step_increases_rank/rank_bounded — for every interleaving of shutter.Shutdown with the obtain / make-known / run pattern, the inner source is shut down once the callbacks ran, no created inner source is left neither run nor shut down, some thread can always move until Run returned, and runs are finite; joining/eternal/multiplexed_uses_safe_pattern tie the theorems to the pattern found in /repo by the go/ast extractor on every run; register_only_counter, publish_only_counter, locked_init_leak_counter are the kernel-checked schedules of the three defects fixed in /repo (43aefa8, 51cbf31, 322f3ac). 'Handlers are never run concurrently' and 'restart from the last accepted block' are checked on the real sources (21 shutdown instants per case, overlap detector, restart reference).", "level_note": LEVEL_NOTE_COMMON, "explanation": 'all interleavings of the abstract shutter model; pattern regenerated from source; real sources exercised at 21 shutdown instants per case',
    },
    "C09": {
        "suites": [("hubburst", 2500, 30000), ("hubready", 600, 10000)], "props": ["C09"], "level": "proof",
        "projection": proj_forkable, "nontrivial": lambda suite, case, impl: any(l.startswith("impl b newirr") or l.startswith("impl ready 1") for l in case["lines"]),
        "rule": "same cases as C05, plus readiness cases (suite hubready: a real ForkableHub whose one-block bootstrap source replays generated one-block files - up to some height, sometimes with a hole, sometimes no source at all - and whose live source delivers the remaining blocks of a generated tree one by one; IsReady and HeadNum observed after every live block); non-trivial = some burst by number starts at or below the hub LIB (new+irreversible prefix) / the hub became ready",
        "trusted_base": FORKABLE_TB,
        "technique": "Lean 4 model of blocksFromNum/blocksFromNumWithForks/LowestBlockNum/Linkable + snapshot monitor (Lean) + differential correspondence",
        "level_text": "Props/C09: fromNum_spec / served_iff_retained_canonical / fromNum_none — the answer to a request by number is exactly the retained canonical chain from the first block with that number to the head, in order, and there is no source iff no retained canonical block has that number (or the hub has no LIB/head/complete chain); fromNum_event_fields — new-and-irreversible exactly up to the hub LIB, New above, every cursor names the hub head, cursor LIB never above the block; withForks_spec — the with-forks snapshot holds exactly the retained blocks at or above n, as many entries as retained blocks, in non-decreasing height. LowestBlockNum ('itself servable, nothing below it is') and readiness (bootstrap/Linkable) are compared with the implementation and checked by the Lean snapshot monitor on every run.", "level_note": LEVEL_NOTE_COMMON, "explanation": 'theorems for all hub states; tie by differential comparison of every snapshot (2500/30000 histories)',
    },
    "C18": {
        "suites": [("forkable", 3000, 40000)], "props": ["C18"], "level": "proof",
        "projection": proj_forkable, "nontrivial": nt_forkable, "rule": FORKABLE_RULE, "trusted_base": FORKABLE_TB,
        "technique": "Lean 4 model of the ForkDB window and lookups + query monitor (Lean) after every block + differential correspondence of AllIDs/AllBlocksAt/GetBlockByHash/CanonicalBlockAt/HeadInfo/LowestBlockNum",
        "level_text": "Props/C18: window_after_lib_move — after every LIB move (advanceTo) no stored block is below LIB minus the retention; purge_keeps_window / lookup_survives_purge — nothing at or above it is removed and the by-hash lookup still returns it; lookup_by_hash / lookup_by_number / lookup_stable — a linked block is returned by hash and by number on whatever fork, and linking never changes other answers; lookup_ignores_sent_marks; head_is_last_new — HeadInfo equals the last block delivered as New. The canonical lookup at a height of the consumer's chain and LowestBlockNum (first block of the contiguous retained chain) are compared with the consumer's chain by the Lean query monitor after every fed block of every run; LowestBlockNum's crash on an inclusive root is fixed (c9b9db2).", "level_note": LEVEL_NOTE_COMMON, "explanation": 'as C01',
    },
    "C20": {
        "suites": [("server", 1500, 20000), ("serverconc", 150, 3000)],
        "props": ["C20"],
        "level": "proof", "facts": True,
        "technique": "Lean 4 theorems on an atomic-operation model of the server (invariant by induction over any push/recv interleaving, refinement of a subscriber's stream to burst++pushes) + differential correspondence through verif-tagged accessors",
        "level_text": "stream_prefix proves for every interleaving of pushes and receives (every consumer speed) that a subscriber's received+queued blocks are burst++later pushes in order, complete until overflow; push_sub_inv/push_closed_frozen give closed-exactly-once and nothing-after-close; push_pointwise gives isolation; burst_spec/burst_negative/subscribe_spec give totality over all signed bursts; bufPush_* give the window clauses; send_never_blocks is the arithmetic core of the non-blocking send. Operations are atomic in the model; what makes them atomic in the code (each of PushBlock/subscribe/unsubscribe holds the server lock for the whole call, subscribe/unsubscribe for writing) is regenerated from /repo on every run (Facts.server, theorem server_facts_safe), locked_subscription_is_gapless proves for every interleaving of pushes with a locked subscription that no block falls between burst and fan-out, unlocked_subscription_loses_a_block is the kernel-checked counter-schedule; the serverconc suite runs PushBlock concurrently with 2-8 subscribing goroutines and demands a gap-free stream for each.",
        "level_note": LEVEL_NOTE_COMMON + "atomicity of channel operations and the RWMutex semantics are assumed, single producer; the Go scheduler/memory model is not modelled (sampled by the serverconc suite).",
        "rule": "cases = one server (unbuffered or buffer size 0-8) driven by 5-45 generated ops (push incl. repeated ids, subscribe with burst from {-2^63,-1,0,0..9,2^63-1}, unsubscribe, non-blocking recv, Ready, buffer ids); 1 in 6 cases additionally overflows one never-reading subscriber by 215 pushes and drains it; distinct = sha1 of header+ops; non-trivial = contains push, subscribe and recv",
        "nontrivial": nt_server,
        "explanation": "model outputs compared op by op with the real server; an independent per-subscriber monitor checks burst++pushes order, overflow-close and window on the implementation's answers",
        "assumptions": ["single producer goroutine", "RWMutex and channel semantics of the Go runtime"],
    },
    "C17": {
        "suites": [("gates", 4000, 80000)],
        "props": ["C17"],
        "level": "proof",
        "technique": "Lean 4 theorems (latch fold = suffix, by induction over the input) + differential correspondence of all gates/gators on generated event sequences",
        "level_text": "forwarded_eq_suffix proves, for every input sequence, gate kind, target, gate type, hold-off limit and first-streamable-block value, that what reaches the wrapped handler is exactly the suffix starting at/after the first triggering event; holdoff_spec places the hold-off error; irreversible_ignores, below_first_streamable_inclusive, gator_spec, tripper_once cover the remaining clauses. The same suffixSpec/holdErrs functions are evaluated on the implementation's forwarded list on every run.",
        "level_note": LEVEL_NOTE_COMMON + "wall clock replaced by an explicit age parameter (harness uses far-past/far-future block times); the wrapped handler does not fail; obj is always a *ForkableObject for the irreversible gates (the code type-asserts it).",
        "rule": "cases = one gate/gator/filter/tripper instance fed 1-14 generated events (steps New/Undo/Irreversible/NewIrreversible/Stalled, ids incl. the target repeated/absent/empty/zero-id, numbers around the target incl. repeats and decreases, far-past and future block times; targets 0-11, fsb 0-3, hold-off 0/1/2/3/5/15000, inclusive/exclusive); distinct = sha1 of header+events; non-trivial = at least 3 events and at least two different outcomes (held back / forwarded / hold-off error)",
        "nontrivial": nt_gates,
        "explanation": "theorems are over all finite event sequences; the correspondence ties the step function to the Go ProcessBlock/Pass methods",
        "assumptions": ["the wrapped handler returns nil", "events given to irreversible gates carry *forkable.ForkableObject"],
    },
    "C14": {
        "suites": [("cursor", 4000, 80000)],
        "props": ["C14"],
        "level": "proof",
        "technique": "Lean 4 theorems on a byte-level model of Cursor.String/FromString (split/join inverse, decimal codec inverse) + differential correspondence incl. malformed and opaque inputs",
        "level_text": "Round trip (roundtrip, opaque_roundtrip), layout choice (layout, short_layout_loses), and decoder behaviour on arbitrary byte strings (fromString_basic, reencode_equiv) are kernel-checked theorems for all ids/heights; the decoder model has no crash outcome and the real decoders are run under recover on malformed/foreign input on every run. The opaque codec is an abstract round-tripping codec (hypothesis of opaque_roundtrip, checked dynamically).",
        "level_note": LEVEL_NOTE_COMMON + "strings.Split/strconv.ParseUint/ParseInt/%d modelled by hand-written byte functions; streamingfast/opaque treated as an abstract codec with dec(enc s)=s.",
        "rule": "cases = 1-5 ops: String/FromString/ToOpaque/CursorFromOpaque/IsOnFinalBlock on generated cursors (4 steps + invalid steps, ids incl. empty/non-UTF8/colon, heights from the 64-bit boundary pool, all aliasing patterns) and on malformed strings (mutated bytes, dropped/duplicated segments, +1/007/-0/2^64 numbers, wrong prefixes, random bytes, random base64, bit-flipped opaque tokens); distinct = sha1 of op lines; non-trivial = at least one successful decode among >= 2 ops",
        "nontrivial": nt_cursor,
        "explanation": "theorems quantify over all byte strings / all cursors; correspondence compares encoders byte for byte and decoders field for field",
        "assumptions": ["opaque.EncodeString/DecodeToString round-trip (checked on every generated string)"],
    },
    "C19": {
        "suites": [("range", 3000, 60000)],
        "props": ["C19"],
        "level": "proof",
        "technique": "Lean 4 theorems over UInt64 (split loop invariant by functional induction, interval arithmetic by omega) + differential correspondence of every Range method",
        "level_text": "Every clause of C19 is a kernel-checked theorem about the UInt64 model of range.go (Props/C19.lean: contains_spec, reachedEnd_spec, size_spec, next/previous_spec, isNext_iff, split_spec, split_total, parseRange_total) for all heights, flag pairs and chunk sizes; the both-exclusive Split clause is refuted by a kernel-checked witness and recorded as a known finding. The model is tied to /repo by running every method on boundary-pool inputs and diffing.",
        "level_note": LEVEL_NOTE_COMMON + "Go uint64 arithmetic = Lean UInt64; ParseRange modelled at byte level.",
        "rule": "cases = 1-6 ops on generated ranges (boundary pool 0,1,2^31±1,2^32±1,2^63±1,2^64-12..2^64-1 mixed with small/uniform heights, 4 flag pairs, chunk sizes from 1 to 2^64-1, malformed ParseRange byte strings); distinct = sha1 of the op lines; non-trivial = contains a Split into >=2 chunks, a ParseRange, an IsNext or a ReachedEndBlock op",
        "nontrivial": nt_range,
        "explanation": "Lean theorems over UInt64 (all 2^64 heights, all flag pairs, all chunk sizes) about a hand-written model of range.go; the model is tied to /repo by differential execution of every Range method on generated inputs; F-C19d (both-exclusive split) is a recorded finding and the Split union theorem is stated for the other three flag pairs",
        "assumptions": ["Go's uint64 arithmetic = Lean UInt64 arithmetic", "ParseRange modelled at byte level: non-ASCII bytes are removed by the regexp like any other non-alphanumeric rune"],
    },
}
