module factx

go 1.21
