// factx re-derives, from the current source of /repo, the synchronisation skeleton that the concurrent Lean
// models are parameterised by, and writes it as Facts.lean (+ facts.json for the evidence file).
//
//	factx <repo> <Facts.lean> <facts.json>
//
// Every fact is a small syntactic observation on one function (go/ast); a shape it does not recognise is
// reported as "unknown", which makes the corresponding Lean side condition fail.
package main

import (
	"encoding/json"
	"fmt"
	"go/ast"
	"go/parser"
	"go/token"
	"os"
	"path/filepath"
	"strings"
)

type file struct {
	f    *ast.File
	fset *token.FileSet
}

func parse(path string) *file {
	fset := token.NewFileSet()
	f, err := parser.ParseFile(fset, path, nil, 0)
	if err != nil {
		fmt.Fprintln(os.Stderr, "factx:", err)
		os.Exit(1)
	}
	return &file{f, fset}
}

func (f *file) method(recv, name string) *ast.FuncDecl {
	for _, d := range f.f.Decls {
		fd, ok := d.(*ast.FuncDecl)
		if !ok || fd.Name.Name != name {
			continue
		}
		if recv == "" && fd.Recv == nil {
			return fd
		}
		if fd.Recv != nil && len(fd.Recv.List) == 1 {
			t := fd.Recv.List[0].Type
			if s, ok := t.(*ast.StarExpr); ok {
				t = s.X
			}
			if id, ok := t.(*ast.Ident); ok && id.Name == recv {
				return fd
			}
		}
	}
	return nil
}

// callName returns "x.y.Z" for a call expression's function
func exprName(e ast.Expr) string {
	switch v := e.(type) {
	case *ast.Ident:
		return v.Name
	case *ast.SelectorExpr:
		return exprName(v.X) + "." + v.Sel.Name
	case *ast.CallExpr:
		return exprName(v.Fun) + "()"
	case *ast.IndexExpr:
		return exprName(v.X) + "[]"
	}
	return "?"
}

func isCallTo(s ast.Stmt, suffix string) bool {
	es, ok := s.(*ast.ExprStmt)
	if !ok {
		return false
	}
	c, ok := es.X.(*ast.CallExpr)
	return ok && strings.HasSuffix(exprName(c.Fun), suffix)
}

// firstLock: which lock call is the first statement of the function
func firstLock(fd *ast.FuncDecl) string {
	if fd == nil || fd.Body == nil || len(fd.Body.List) == 0 {
		return "unknown"
	}
	// the lock is the first statement and is released by a defer that is the second one: held for the whole call
	if len(fd.Body.List) < 2 {
		return "none"
	}
	d, ok := fd.Body.List[1].(*ast.DeferStmt)
	if !ok {
		return "none"
	}
	rel := exprName(d.Call.Fun)
	switch {
	case isCallTo(fd.Body.List[0], ".RLock") && strings.HasSuffix(rel, ".RUnlock"):
		return "rlock"
	case isCallTo(fd.Body.List[0], ".Lock") && strings.HasSuffix(rel, ".Unlock"):
		return "lock"
	}
	return "none"
}

func containsCall(n ast.Node, suffix string) bool {
	found := false
	ast.Inspect(n, func(x ast.Node) bool {
		if c, ok := x.(*ast.CallExpr); ok && strings.HasSuffix(exprName(c.Fun), suffix) {
			found = true
		}
		return !found
	})
	return found
}

// registration pattern of every `OnTerminating(X.Shutdown)` call in a file: followed by `if …IsTerminating() { X.Shutdown }` ?
func registrationPattern(f *file) string {
	total, checked := 0, 0
	ast.Inspect(f.f, func(n ast.Node) bool {
		bl, ok := n.(*ast.BlockStmt)
		if !ok {
			return true
		}
		for i, st := range bl.List {
			es, ok := st.(*ast.ExprStmt)
			if !ok {
				continue
			}
			c, ok := es.X.(*ast.CallExpr)
			if !ok || !strings.HasSuffix(exprName(c.Fun), ".OnTerminating") || len(c.Args) != 1 {
				continue
			}
			if !strings.HasSuffix(exprName(c.Args[0]), ".Shutdown") {
				continue
			}
			total++
			if i+1 < len(bl.List) {
				if ifs, ok := bl.List[i+1].(*ast.IfStmt); ok && containsCall(ifs.Cond, ".IsTerminating") && containsCall(ifs.Body, ".Shutdown") {
					checked++
				}
			}
		}
		return true
	})
	switch {
	case total == 0:
		return "unknown"
	case checked == total:
		return "registerThenCheck"
	default:
		return "registerOnly"
	}
}

// publishPattern: is the assignment to `target` (e.g. "s.currentSource") made inside a func literal passed to LockedInit?
func publishPattern(fd *ast.FuncDecl, target string) string {
	if fd == nil {
		return "unknown"
	}
	inside, outside := 0, 0
	var walk func(n ast.Node, locked bool)
	walk = func(n ast.Node, locked bool) {
		ast.Inspect(n, func(x ast.Node) bool {
			switch v := x.(type) {
			case *ast.CallExpr:
				if strings.HasSuffix(exprName(v.Fun), ".LockedInit") {
					for _, a := range v.Args {
						walk(a, true)
					}
					return false
				}
			case *ast.AssignStmt:
				for _, l := range v.Lhs {
					if exprName(l) == target {
						if locked {
							inside++
						} else {
							outside++
						}
					}
				}
			}
			return true
		})
	}
	walk(fd.Body, false)
	switch {
	case inside > 0 && outside == 0:
		if lockedInitErrShutsInner(fd) {
			return "lockedInit"
		}
		return "lockedInitLeak"
	case outside > 0:
		return "publishOnly"
	}
	return "unknown"
}

// lockedInitErrShutsInner: does the failure branch of the LockedInit call (`if err := X.LockedInit(...); err != nil {…}` or
// `err := X.LockedInit(...)` followed by `if err != nil {…}`) shut down something other than the receiver itself,
// i.e. the inner source that was just created?
func lockedInitErrShutsInner(fd *ast.FuncDecl) bool {
	recv := ""
	if fd.Recv != nil && len(fd.Recv.List) > 0 && len(fd.Recv.List[0].Names) > 0 {
		recv = fd.Recv.List[0].Names[0].Name
	}
	shutsInner := func(body *ast.BlockStmt) bool {
		ok := false
		ast.Inspect(body, func(n ast.Node) bool {
			if c, isc := n.(*ast.CallExpr); isc {
				name := exprName(c.Fun)
				if strings.HasSuffix(name, ".Shutdown") && name != recv+".Shutdown" {
					ok = true
				}
			}
			return true
		})
		return ok
	}
	found, good := 0, 0
	ast.Inspect(fd.Body, func(n ast.Node) bool {
		bl, isb := n.(*ast.BlockStmt)
		if !isb {
			return true
		}
		for i, st := range bl.List {
			switch v := st.(type) {
			case *ast.IfStmt:
				if v.Init != nil && containsCall(v.Init, ".LockedInit") {
					found++
					if shutsInner(v.Body) {
						good++
					}
				}
			case *ast.AssignStmt:
				if containsCall(v, ".LockedInit") {
					found++
					if i+1 < len(bl.List) {
						if ifs, isif := bl.List[i+1].(*ast.IfStmt); isif && shutsInner(ifs.Body) {
							good++
						}
					}
				}
			}
		}
		return true
	})
	return found > 0 && found == good
}

// resultChanQueuedInReadOrder: in the reading loop of streamReader, a fresh one-slot channel `out := make(chan …, 1)` is sent on
// `preprocessed` and only afterwards handed to `go s.preprocess(blk, out)`, all in the same loop body (so in read order).
func resultChanQueuedInReadOrder(fd *ast.FuncDecl) bool {
	if fd == nil {
		return false
	}
	ok := false
	ast.Inspect(fd.Body, func(n ast.Node) bool {
		fs, isFor := n.(*ast.ForStmt)
		if !isFor {
			return true
		}
		made, sent, spawnedAfter := "", false, false
		for _, st := range fs.Body.List {
			switch v := st.(type) {
			case *ast.AssignStmt:
				if len(v.Lhs) == 1 && len(v.Rhs) == 1 {
					if c, isC := v.Rhs[0].(*ast.CallExpr); isC && exprName(c.Fun) == "make" && len(c.Args) == 2 {
						if _, isChan := c.Args[0].(*ast.ChanType); isChan {
							if bl, isLit := c.Args[1].(*ast.BasicLit); isLit && bl.Value == "1" {
								made = exprName(v.Lhs[0])
							}
						}
					}
				}
			case *ast.SelectStmt:
				ast.Inspect(v, func(x ast.Node) bool {
					if snd, isS := x.(*ast.SendStmt); isS && made != "" && exprName(snd.Chan) == "preprocessed" && exprName(snd.Value) == made {
						sent = true
					}
					return true
				})
			case *ast.SendStmt:
				if made != "" && exprName(v.Chan) == "preprocessed" && exprName(v.Value) == made {
					sent = true
				}
			case *ast.GoStmt:
				if strings.HasSuffix(exprName(v.Call.Fun), ".preprocess") && len(v.Call.Args) == 2 && exprName(v.Call.Args[1]) == made && sent {
					spawnedAfter = true
				}
			}
		}
		if made != "" && sent && spawnedAfter {
			ok = true
		}
		return true
	})
	return ok
}

// forwarderSequential: the goroutine started in streamReader receives a channel from `preprocessed`, then receives from that channel,
// then sends what it got on the file's `blocks` channel — nested in this order, with no other send on `blocks` in the function.
func forwarderSequential(fd *ast.FuncDecl) bool {
	if fd == nil {
		return false
	}
	ok := false
	sends := 0
	ast.Inspect(fd.Body, func(n ast.Node) bool {
		if s, isS := n.(*ast.SendStmt); isS && strings.HasSuffix(exprName(s.Chan), ".blocks") {
			sends++
		}
		gs, isGo := n.(*ast.GoStmt)
		if !isGo {
			return true
		}
		fl, isLit := gs.Call.Fun.(*ast.FuncLit)
		if !isLit {
			return true
		}
		// find: case X, _ := <-preprocessed: … case Y := <-X: … case ….blocks <- Y
		ast.Inspect(fl.Body, func(x ast.Node) bool {
			cc, isCC := x.(*ast.CommClause)
			if !isCC || cc.Comm == nil {
				return true
			}
			as, isAs := cc.Comm.(*ast.AssignStmt)
			if !isAs || len(as.Rhs) != 1 {
				return true
			}
			ue, isUE := as.Rhs[0].(*ast.UnaryExpr)
			if !isUE || exprName(ue.X) != "preprocessed" || len(as.Lhs) == 0 {
				return true
			}
			chanVar := exprName(as.Lhs[0])
			for _, st := range cc.Body {
				ast.Inspect(st, func(y ast.Node) bool {
					cc2, isCC2 := y.(*ast.CommClause)
					if !isCC2 || cc2.Comm == nil {
						return true
					}
					as2, isAs2 := cc2.Comm.(*ast.AssignStmt)
					if !isAs2 || len(as2.Rhs) != 1 || len(as2.Lhs) == 0 {
						return true
					}
					ue2, isUE2 := as2.Rhs[0].(*ast.UnaryExpr)
					if !isUE2 || exprName(ue2.X) != chanVar {
						return true
					}
					val := exprName(as2.Lhs[0])
					for _, st2 := range cc2.Body {
						ast.Inspect(st2, func(z ast.Node) bool {
							if snd, isS := z.(*ast.SendStmt); isS && strings.HasSuffix(exprName(snd.Chan), ".blocks") && exprName(snd.Value) == val {
								ok = true
							}
							return true
						})
					}
					return true
				})
			}
			return true
		})
		return true
	})
	return ok && sends == 1
}

// guardedAppend: is `h.subscribers = append(...)` in fd preceded (same block) by a Lock() call on a mutex field?
func guardedAppend(fd *ast.FuncDecl, target string) bool {
	if fd == nil {
		return false
	}
	ok := false
	ast.Inspect(fd.Body, func(n ast.Node) bool {
		bl, isb := n.(*ast.BlockStmt)
		if !isb {
			return true
		}
		locked := false
		for _, st := range bl.List {
			if isCallTo(st, ".Lock") {
				locked = true
			}
			if as, isa := st.(*ast.AssignStmt); isa {
				for _, l := range as.Lhs {
					if exprName(l) == target && locked {
						ok = true
					}
				}
			}
		}
		return true
	})
	return ok
}

func chanCap(fd *ast.FuncDecl, elemSuffix string) string {
	res := "unknown"
	if fd == nil {
		return res
	}
	ast.Inspect(fd.Body, func(n ast.Node) bool {
		c, ok := n.(*ast.CallExpr)
		if !ok || exprName(c.Fun) != "make" || len(c.Args) < 1 {
			return true
		}
		ct, ok := c.Args[0].(*ast.ChanType)
		if !ok || !strings.HasSuffix(exprName(stripStar(ct.Value)), elemSuffix) {
			return true
		}
		if len(c.Args) == 1 {
			res = "0"
		} else if bl, ok := c.Args[1].(*ast.BasicLit); ok {
			res = bl.Value
		} else {
			res = exprName(c.Args[1])
		}
		return true
	})
	return res
}

func stripStar(e ast.Expr) ast.Expr {
	if s, ok := e.(*ast.StarExpr); ok {
		return s.X
	}
	return e
}

// inner receive loop of FileSource.run selects on Terminating?
func runSelectsTerminating(fd *ast.FuncDecl) bool {
	if fd == nil {
		return false
	}
	found := false
	ast.Inspect(fd.Body, func(n ast.Node) bool {
		sel, ok := n.(*ast.SelectStmt)
		if !ok {
			return true
		}
		hasTerm, hasBlocks := false, false
		for _, cc := range sel.Body.List {
			c := cc.(*ast.CommClause)
			if c.Comm == nil {
				continue
			}
			src := ""
			ast.Inspect(c.Comm, func(x ast.Node) bool {
				if u, ok := x.(*ast.UnaryExpr); ok && u.Op == token.ARROW {
					src = exprName(u.X)
				}
				return true
			})
			if strings.HasSuffix(src, ".Terminating()") {
				hasTerm = true
			}
			if strings.HasSuffix(src, ".blocks") {
				hasBlocks = true
			}
		}
		if hasTerm && hasBlocks {
			found = true
		}
		return true
	})
	return found
}

// in streamReader: in the block handling a Read error, is Shutdown called before close(preprocessed)?
func shutdownBeforeClose(fd *ast.FuncDecl) bool {
	if fd == nil {
		return false
	}
	ok := false
	ast.Inspect(fd.Body, func(n ast.Node) bool {
		bl, isb := n.(*ast.BlockStmt)
		if !isb {
			return true
		}
		sawShutdown := false
		for _, st := range bl.List {
			if isCallTo(st, ".Shutdown") {
				sawShutdown = true
			}
			if es, isE := st.(*ast.ExprStmt); isE {
				if c, isC := es.X.(*ast.CallExpr); isC && exprName(c.Fun) == "close" && len(c.Args) == 1 && exprName(c.Args[0]) == "preprocessed" {
					if sawShutdown {
						ok = true
					}
				}
			}
		}
		return true
	})
	return ok
}


// handlerSerialized: every function literal of fd that calls `<handler>.ProcessBlock` takes `lockSuffix`.Lock() as a
// *direct, unconditional* statement of its body before that call and releases it (direct statement or defer) after:
// the handler calls of all inner sources, incarnations included, are serialised by one mutex.
func handlerSerialized(fd *ast.FuncDecl, callSuffix, lockName string) bool {
	if fd == nil || fd.Body == nil {
		return false
	}
	seen, ok := 0, true
	ast.Inspect(fd.Body, func(x ast.Node) bool {
		fl, isLit := x.(*ast.FuncLit)
		if !isLit || !containsCall(fl.Body, callSuffix) {
			return true
		}
		// innermost literal containing the call
		inner := false
		for _, st := range fl.Body.List {
			ast.Inspect(st, func(y ast.Node) bool {
				if g, is := y.(*ast.FuncLit); is && containsCall(g.Body, callSuffix) {
					inner = true
				}
				return !inner
			})
		}
		if inner {
			return true
		}
		seen++
		locked, called, released := false, false, false
		for _, st := range fl.Body.List {
			switch {
			case !called && isCallTo(st, lockName+".Lock"):
				locked = true
			case containsCall(st, callSuffix):
				if !locked || released {
					ok = false
				}
				called = true
			case isCallTo(st, lockName+".Unlock"):
				if !called {
					locked = false
				}
				released = true
			}
			if d, is := st.(*ast.DeferStmt); is && strings.HasSuffix(exprName(d.Call.Fun), lockName+".Unlock") && locked {
				released = false
			}
		}
		if !locked || !called {
			ok = false
		}
		return true
	})
	return ok && seen > 0
}

func usesOnce(fd *ast.FuncDecl) bool { return fd != nil && containsCall(fd.Body, "Once.Do") }

func main() {
	if len(os.Args) != 4 {
		fmt.Fprintln(os.Stderr, "usage: factx <repo> <Facts.lean> <facts.json>")
		os.Exit(2)
	}
	repo := os.Args[1]
	p := func(rel string) *file { return parse(filepath.Join(repo, rel)) }
	forkableGo, hubGo := p("forkable/forkable.go"), p("hub/hub.go")
	joining, eternal, mux := p("joiningsource.go"), p("eternalsource.go"), p("multiplexedsource.go")
	server, sub := p("blockstream/server.go"), p("blockstream/subscription.go")
	fsrc := p("filesource.go")

	facts := map[string]string{
		"joiningPattern":     registrationPattern(joining),
		"eternalPattern":     publishPattern(eternal.method("EternalSource", "Run"), "s.currentSource"),
		"muxPattern":         publishPattern(mux.method("MultiplexedSource", "connectSources"), "s.sources[]"),
		"burstFromNumLock":   firstLock(forkableGo.method("Forkable", "CallWithBlocksFromNum")),
		"burstFromCursorLock": firstLock(forkableGo.method("Forkable", "CallWithBlocksFromCursor")),
		"burstThroughLock":   firstLock(forkableGo.method("Forkable", "CallWithBlocksThroughCursor")),
		"processBlockLock":   firstLock(forkableGo.method("Forkable", "ProcessBlock")),
		"subscribeGuarded":   fmt.Sprint(guardedAppend(hubGo.method("ForkableHub", "subscribe"), "h.subscribers")),
		"unsubscribeGuarded": fmt.Sprint(guardedAppend(hubGo.method("ForkableHub", "unsubscribe"), "h.subscribers")),
		"serverPushLock":     firstLock(server.method("Server", "PushBlock")),
		"serverSubscribeLock": firstLock(server.method("Server", "subscribe")),
		"serverUnsubscribeLock": firstLock(server.method("Server", "unsubscribe")),
		"subCloseOnce":       fmt.Sprint(usesOnce(sub.method("subscription", "Push"))),
		"fileStreamCap":      chanCap(fsrc.method("", "NewFileSource"), "incomingBlocksFile"),
		"runSelectsTerminating": fmt.Sprint(runSelectsTerminating(fsrc.method("FileSource", "run"))),
		"readErrShutdownBeforeClose": fmt.Sprint(shutdownBeforeClose(fsrc.method("FileSource", "streamReader"))),
		"resultChanQueuedInReadOrder": fmt.Sprint(resultChanQueuedInReadOrder(fsrc.method("FileSource", "streamReader"))),
		"forwarderSequential":         fmt.Sprint(forwarderSequential(fsrc.method("FileSource", "streamReader"))),
		"muxHandlerSerialized":        fmt.Sprint(handlerSerialized(mux.method("MultiplexedSource", "connectSources"), "s.handler.ProcessBlock", "s.handlerLock")),
	}
	js, _ := json.MarshalIndent(facts, "", " ")
	os.WriteFile(os.Args[3], js, 0644)

	pat := func(s string) string {
		switch s {
		case "registerOnly", "publishOnly", "registerThenCheck", "lockedInit", "lockedInitLeak":
			return "Pattern." + s
		}
		return "Pattern.registerOnly /- unknown shape -/"
	}
	lk := func(s string) string {
		switch s {
		case "lock":
			return "LockKind.write"
		case "rlock":
			return "LockKind.read"
		}
		return "LockKind.none"
	}
	var b strings.Builder
	b.WriteString("/- GENERATED by /verif/factx from /repo on every run — do not edit. -/\n")
	b.WriteString("import BstreamVerif.Conc.Shutter\nimport BstreamVerif.Conc.Locks\n")
	b.WriteString("namespace BstreamVerif.Facts\nopen BstreamVerif.Conc.Shutter BstreamVerif.Conc.Locks\n\n")
	fmt.Fprintf(&b, "def joiningPattern : Pattern := %s\n", pat(facts["joiningPattern"]))
	fmt.Fprintf(&b, "def eternalPattern : Pattern := %s\n", pat(facts["eternalPattern"]))
	fmt.Fprintf(&b, "def muxPattern : Pattern := %s\n", pat(facts["muxPattern"]))
	fmt.Fprintf(&b, "/-- every handler wrapper of MultiplexedSource.connectSources holds handlerLock, unconditionally, around the handler call -/\ndef muxHandlerSerialized : Bool := %s\n\n", facts["muxHandlerSerialized"])
	fmt.Fprintf(&b, "def hub : HubFacts := { burstLocks := [%s, %s, %s], processLock := %s, subscribeGuarded := %s, unsubscribeGuarded := %s }\n",
		lk(facts["burstFromNumLock"]), lk(facts["burstFromCursorLock"]), lk(facts["burstThroughLock"]), lk(facts["processBlockLock"]),
		facts["subscribeGuarded"], facts["unsubscribeGuarded"])
	fmt.Fprintf(&b, "def server : ServerFacts := { pushLock := %s, subscribeLock := %s, unsubscribeLock := %s, closeOnce := %s }\n",
		lk(facts["serverPushLock"]), lk(facts["serverSubscribeLock"]), lk(facts["serverUnsubscribeLock"]), facts["subCloseOnce"])
	cap := facts["fileStreamCap"]
	if cap == "unknown" {
		cap = "0"
	}
	fmt.Fprintf(&b, "def fileSrc : FileSrcFacts := { fileStreamCap := %s, runSelectsTerminating := %s, readErrShutdownBeforeClose := %s, resultChanQueuedInReadOrder := %s, forwarderSequential := %s }\n",
		cap, facts["runSelectsTerminating"], facts["readErrShutdownBeforeClose"], facts["resultChanQueuedInReadOrder"], facts["forwarderSequential"])
	// arithmetic helpers translated from the source (see translate.go)
	b.WriteString("\n/-! translated from the Go source on every run -/\nnamespace Gen\n")
	util, tutil := p("util.go"), p("transform/block_index_helpers.go")
	b.WriteString(translateFunc(util.method("", "lowBoundary"), "lowBoundary", nil))
	b.WriteString(translateFunc(tutil.method("", "lowBoundary"), "indexLowBoundary", nil))
	b.WriteString(translateFunc(hubGo.method("", "substractAndRoundDownBlocks"), "substractAndRoundDownBlocks",
		map[string]string{"bstream.GetProtocolFirstStreamableBlock": "fsb"}))
	steps := p("steps.go")
	b.WriteString(translateFuncT(steps.method("StepType", "Matches"), "stepMatches", nil, "Bool"))
	b.WriteString(translateConsts(steps, []string{"StepNew", "StepUndo", "StepIrreversible", "StepStalled"}, "c"))
	b.WriteString("end Gen\n")
	b.WriteString("\nend BstreamVerif.Facts\n")
	os.WriteFile(os.Args[2], []byte(b.String()), 0644)
}
