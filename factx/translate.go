package main

// A translator for a small subset of Go — functions over uint64 made of `var x uint64`, assignments, if/else with
// comparisons, early returns, and + - * / % on identifiers, integer literals and one named package variable — into
// Lean 4 definitions over Nat. The result is written into Facts.lean on every run; hand-written theorems state that the
// generated definition equals the corresponding function of the hand-written model, so an edit of the Go arithmetic
// that changes its meaning breaks a theorem (an obligation of the property's check).
//
// uint64 subtraction wraps in Go and truncates at 0 in Lean's Nat: the translation is faithful only where the
// subtraction cannot underflow; the translator records every subtraction and the tie theorems are stated for the
// functions where the guard is in the code itself (`if a < b {…} else {a - b}`) or the operands are `i` and `i % m`.

import (
	"fmt"
	"go/ast"
	"go/token"
	"strings"
)

type trans struct {
	globals map[string]string // selector text -> extra parameter name
	used    []string
	err     error
}

func (t *trans) expr(e ast.Expr) string {
	switch v := e.(type) {
	case *ast.Ident:
		return v.Name
	case *ast.BasicLit:
		if v.Kind == token.INT {
			return v.Value
		}
	case *ast.ParenExpr:
		return "(" + t.expr(v.X) + ")"
	case *ast.SelectorExpr:
		name := exprName(v)
		if p, ok := t.globals[name]; ok {
			found := false
			for _, u := range t.used {
				if u == p {
					found = true
				}
			}
			if !found {
				t.used = append(t.used, p)
			}
			return p
		}
	case *ast.BinaryExpr:
		op := v.Op.String()
		switch v.Op {
		case token.ADD, token.SUB, token.MUL, token.QUO, token.REM:
			return "(" + t.expr(v.X) + " " + op + " " + t.expr(v.Y) + ")"
		case token.AND:
			return "(" + t.expr(v.X) + " &&& " + t.expr(v.Y) + ")"
		case token.OR:
			return "(" + t.expr(v.X) + " ||| " + t.expr(v.Y) + ")"
		case token.LSS, token.GTR, token.LEQ, token.GEQ:
			return "(" + t.expr(v.X) + " " + op + " " + t.expr(v.Y) + ")"
		case token.EQL:
			return "(" + t.expr(v.X) + " = " + t.expr(v.Y) + ")"
		case token.NEQ:
			return "(" + t.expr(v.X) + " ≠ " + t.expr(v.Y) + ")"
		case token.LAND:
			return "(" + t.expr(v.X) + " ∧ " + t.expr(v.Y) + ")"
		case token.LOR:
			return "(" + t.expr(v.X) + " ∨ " + t.expr(v.Y) + ")"
		}
	}
	if t.err == nil {
		t.err = fmt.Errorf("unsupported expression %T", e)
	}
	return "0"
}

// assignedIn: the single variable a block assigns (only plain `x = e` statements), with the expression
func (t *trans) singleAssign(b *ast.BlockStmt) (string, string, bool) {
	if b == nil || len(b.List) != 1 {
		return "", "", false
	}
	as, ok := b.List[0].(*ast.AssignStmt)
	if !ok || as.Tok != token.ASSIGN || len(as.Lhs) != 1 || len(as.Rhs) != 1 {
		return "", "", false
	}
	id, ok := as.Lhs[0].(*ast.Ident)
	if !ok {
		return "", "", false
	}
	return id.Name, t.expr(as.Rhs[0]), true
}

func (t *trans) singleReturn(b *ast.BlockStmt) (string, bool) {
	if b == nil || len(b.List) != 1 {
		return "", false
	}
	r, ok := b.List[0].(*ast.ReturnStmt)
	if !ok || len(r.Results) != 1 {
		return "", false
	}
	return t.expr(r.Results[0]), true
}

// stmts translates a statement list into a Lean term
func (t *trans) stmts(l []ast.Stmt) string {
	if len(l) == 0 {
		if t.err == nil {
			t.err = fmt.Errorf("function falls off its end")
		}
		return "0"
	}
	rest := func() string { return t.stmts(l[1:]) }
	switch s := l[0].(type) {
	case *ast.ReturnStmt:
		if len(s.Results) == 1 {
			return t.expr(s.Results[0])
		}
	case *ast.DeclStmt: // var x uint64
		if gd, ok := s.Decl.(*ast.GenDecl); ok && gd.Tok == token.VAR && len(gd.Specs) == 1 {
			if vs, ok := gd.Specs[0].(*ast.ValueSpec); ok && len(vs.Names) == 1 && len(vs.Values) == 0 {
				return "let " + vs.Names[0].Name + " := 0\n  " + rest()
			}
		}
	case *ast.AssignStmt:
		if len(s.Lhs) == 1 && len(s.Rhs) == 1 && (s.Tok == token.ASSIGN || s.Tok == token.DEFINE) {
			if id, ok := s.Lhs[0].(*ast.Ident); ok {
				return "let " + id.Name + " := " + t.expr(s.Rhs[0]) + "\n  " + rest()
			}
		}
	case *ast.IfStmt:
		if s.Init == nil {
			cond := t.expr(s.Cond)
			if r, ok := t.singleReturn(s.Body); ok && s.Else == nil {
				return "if " + cond + " then " + r + " else\n  " + rest()
			}
			if x, e1, ok := t.singleAssign(s.Body); ok {
				if eb, ok := s.Else.(*ast.BlockStmt); ok {
					if y, e2, ok := t.singleAssign(eb); ok && x == y {
						return "let " + x + " := if " + cond + " then " + e1 + " else " + e2 + "\n  " + rest()
					}
				}
				if s.Else == nil {
					return "let " + x + " := if " + cond + " then " + e1 + " else " + x + "\n  " + rest()
				}
			}
		}
	}
	if t.err == nil {
		t.err = fmt.Errorf("unsupported statement %T", l[0])
	}
	return "0"
}

// translateFunc renders `def <leanName> (params… : Nat) : Nat := …`, or a definition of type Unit (which makes the
// tie theorems fail to elaborate) when the function is missing or outside the subset
func translateFunc(fd *ast.FuncDecl, leanName string, globals map[string]string) string {
	return translateFuncT(fd, leanName, globals, "Nat")
}

// translateFuncT: result type "Nat" or "Bool" (a returned comparison is decided)
func translateFuncT(fd *ast.FuncDecl, leanName string, globals map[string]string, resType string) string {
	if fd == nil || fd.Body == nil {
		return fmt.Sprintf("def %s : Unit := ()  -- function not found\n", leanName)
	}
	t := &trans{globals: globals}
	var params []string
	if fd.Recv != nil {
		for _, f := range fd.Recv.List {
			for _, n := range f.Names {
				params = append(params, n.Name)
			}
		}
	}
	for _, f := range fd.Type.Params.List {
		for _, n := range f.Names {
			params = append(params, n.Name)
		}
	}
	body := t.stmts(fd.Body.List)
	if t.err != nil {
		return fmt.Sprintf("def %s : Unit := ()  -- outside the translated subset: %v\n", leanName, t.err)
	}
	params = append(params, t.used...)
	if resType == "Bool" {
		return fmt.Sprintf("def %s (%s : Nat) : Bool :=\n  decide (%s)\n", leanName, strings.Join(params, " "), body)
	}
	return fmt.Sprintf("def %s (%s : Nat) : Nat :=\n  %s\n", leanName, strings.Join(params, " "), body)
}

// translateConsts renders integer constants of the form `Name = T(<int literal>)` or `Name = <int literal>` of one file
func translateConsts(f *file, names []string, prefix string) string {
	vals := map[string]string{}
	for _, d := range f.f.Decls {
		gd, ok := d.(*ast.GenDecl)
		if !ok || gd.Tok != token.CONST {
			continue
		}
		for _, sp := range gd.Specs {
			vs, ok := sp.(*ast.ValueSpec)
			if !ok || len(vs.Names) != 1 || len(vs.Values) != 1 {
				continue
			}
			e := vs.Values[0]
			if c, ok := e.(*ast.CallExpr); ok && len(c.Args) == 1 {
				e = c.Args[0]
			}
			if bl, ok := e.(*ast.BasicLit); ok && bl.Kind == token.INT {
				vals[vs.Names[0].Name] = bl.Value
			}
		}
	}
	var b strings.Builder
	for _, n := range names {
		if v, ok := vals[n]; ok {
			fmt.Fprintf(&b, "def %s%s : Nat := %s\n", prefix, n, v)
		} else {
			fmt.Fprintf(&b, "def %s%s : Unit := ()  -- constant not found as an integer literal\n", prefix, n)
		}
	}
	return b.String()
}
