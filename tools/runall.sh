#!/bin/bash
# Run every registered check (quick by default) on /repo's current tree; used to refresh evidence before a commit.
cd "$(dirname "$0")/.."
tier=${1:-quick}
fail=0
for p in $(python3 -c "import json;print(' '.join(c['property_id'] for c in json.load(open('MANIFEST.json'))['checks']))"); do
  out=$(timeout 3000 bin/check $p $tier 2>&1); rc=$?
  echo "$out" | grep -E "^(check|VIOLATION)" | cut -c1-220
  [ $rc -ne 0 ] && fail=1
done
exit $fail
