#!/bin/bash
# reseed.sh [seed-dir-name ...]
# Detection regression: for every kept seed under seeded/ (or the ones named), apply its patch to a scratch
# worktree of /repo and run the property's quick check against that tree (VERIF_REPO), from a scratch copy of
# /verif so that neither evidence/ nor .build/ of the real checkout is touched. Expected: every seed is reported
# (exit 1 with a VIOLATION line). Prints one line per seed; exit 1 if a seed is missed.
set -u
V="$(cd "$(dirname "$0")/.." && pwd)"
S=/tmp/reseed.$$
mkdir -p $S
rsync -a --exclude .git --exclude replays $V/ $S/verif/
mkdir -p $S/verif/replays
seeds=("$@"); [ ${#seeds[@]} -eq 0 ] && seeds=($(ls $V/seeded))
missed=0
for sd in "${seeds[@]}"; do
  d=$V/seeded/$sd
  [ -f $d/patch.diff ] || continue
  prop=$(python3 -c "import json,sys; print(json.load(open('$d/meta.json')).get('breaks') or json.load(open('$d/meta.json'))['property'])")
  git -C /repo worktree add --detach $S/wt HEAD >/dev/null 2>&1 || { echo "$sd: cannot create worktree"; missed=1; continue; }
  if ! git -C $S/wt apply $d/patch.diff 2>/dev/null; then
    echo "$sd: patch no longer applies"; git -C /repo worktree remove --force $S/wt; continue
  fi
  out=$(cd $S/verif && VERIF_REPO=$S/wt timeout 2400 bin/check $prop quick 2>&1 | grep -E "^(check|VIOLATION)" | cut -c1-160 | tr '\n' ' ')
  case "$out" in
    *VIOLATION*) echo "$sd: caught  [$out]";;
    *) echo "$sd: MISSED  [$out]"; missed=1;;
  esac
  git -C /repo worktree remove --force $S/wt
done
git -C /repo worktree prune
rm -rf $S
exit $missed
