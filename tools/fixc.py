import sys,subprocess
# usage: fixc.py <msg> <file> <old> <new> [<file> <old> <new> ...]
msg=sys.argv[1]; a=sys.argv[2:]
files=[]
for i in range(0,len(a),3):
    p,old,new=a[i],a[i+1],a[i+2]
    s=open(p).read()
    assert s.count(old)==1,(p,old,s.count(old))
    open(p,'w').write(s.replace(old,new)); files.append(p)
subprocess.check_call(['git','add']+files)
subprocess.check_call(['git','commit','-q','-m',msg])
print(subprocess.check_output(['git','log','--oneline','-1']).decode())
