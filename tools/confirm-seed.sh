#!/bin/bash
# confirm-seed.sh <seed-name> <property> <pkgdir-for-demo> <go test -run pattern>
# Confirms a seeded change in its scratch worktree (/tmp/seed/<seed>/wt): suite green with the patch, demo fails
# with it and passes without it; then runs the property's check against /repo with the patch applied and undoes it.
set -u
seed=$1; prop=$2; pkg=$3; pat=$4
export GOFLAGS=-mod=mod GOPROXY=off GOSUMDB=off GOTOOLCHAIN=local
W=/tmp/seed/$seed/wt; O=/tmp/seed/$seed/out
cd $W || exit 2
git checkout -q -- . ; git clean -fdq
git apply $O/patch.diff || { echo "patch does not apply"; exit 2; }
echo "== suite with patch"; go test -count=1 ./... 2>&1 | grep -v "^{" | tail -8
cp $O/demo_test.go $W/$pkg/zz_demo_test.go
echo "== demo with patch (expect FAIL)"; (cd $W/$pkg && timeout 300 go test -count=1 -run "$pat" . 2>&1 | grep -v "^{" | tail -5)
git apply -R $O/patch.diff
echo "== demo without patch (expect ok)"; (cd $W/$pkg && timeout 300 go test -count=1 -run "$pat" . 2>&1 | grep -v "^{" | tail -3)
git apply $O/patch.diff; rm -f $W/$pkg/zz_demo_test.go
echo "== check $prop against /repo with the patch"
git -C /repo apply $O/patch.diff && (cd /verif && timeout 1800 bin/check $prop quick 2>&1 | grep -E "^(check|VIOLATION|KNOWN)" | cut -c1-250; ls -t /verif/replays | head -1)
git -C /repo checkout -- .
