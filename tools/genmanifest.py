#!/usr/bin/env python3
"""Regenerate /verif/MANIFEST.json from bin/checkcfg.py (claimed checks) and properties.jsonl."""
import json, os, sys, subprocess
V = os.path.dirname(os.path.dirname(os.path.abspath(__file__)))
sys.path.insert(0, os.path.join(V, "bin"))
from checkcfg import PROPS
HOOK_COMMITS = subprocess.check_output(['git','-C','/repo','log','--format=%h','--grep=^verif hooks']).decode().split()[::-1]
ids = [json.loads(l)["id"] for l in open(os.path.join(V, "properties.jsonl"))]
checks = []
for pid in ids:
    if pid not in PROPS:
        continue
    c = PROPS[pid]
    checks.append({
        "property_id": pid,
        "quick_cmd": "bin/check %s quick" % pid,
        "thorough_cmd": "bin/check %s thorough" % pid,
        "evidence_file": "/verif/evidence/%s.json" % pid,
        "replay_cmd_template": "bin/check %s --replay {path}" % pid,
        "engine": "lean4-model+correspondence",
        "level_claimed": {"category": c["level"], "text": c["level_text"], "design_ref": c.get("design_ref", "DESIGN.md §6 " + pid)},
        "level_note": c["level_note"],
        "technique": c["technique"],
    })
na = [{"property_id": pid, "reason": "no check registered yet in this round: the Lean model and correspondence suite for it are still being built (see DESIGN.md §11 order of work); nothing is claimed for it until they exist"}
      for pid in ids if pid not in PROPS]
m = {
    "version": 1,
    "setup_cmd": "bin/setup",
    "hooks": {
        "guard": "verif",
        "enable": "go build -tags verif (bin/build-harness builds the harness module against /repo through a replace directive)",
        "baseline_off_cmd": "cd /repo && GOFLAGS=-mod=mod GOPROXY=off GOSUMDB=off go test -vet=off -count=1 -timeout 25m ./...",
        "source_commits": HOOK_COMMITS,
        "add_only": True,
    },
    "engines": [
        {"name": "lean4-model+correspondence", "path": "/verif/lean",
         "serves_properties": [c["property_id"] for c in checks],
         "kind_free_text": "hand-written Lean 4 model (lean/BstreamVerif/Model, Conc) with kernel-checked theorems per property (lean/BstreamVerif/Props/Cxx.lean); tied to /repo on every run by bin/check: Go harness (harness/, built from /repo's working tree with -tags verif) runs the real code on generated inputs, the native Lean driver bsmodel runs the model and the Lean monitors on the same lines, outputs are diffed"},
    ],
    "checks": checks,
    "not_applicable": na,
    "notes": "bin/check <id> [quick|thorough] [--replay file]; honours VERIF_SEED and VERIF_TIER; known findings in known-findings.txt; see DESIGN.md",
}
if not na:
    del m["not_applicable"]
json.dump(m, open(os.path.join(V, "MANIFEST.json"), "w"), indent=1)
print("MANIFEST.json: %d checks, %d not_applicable" % (len(checks), len(na)))
