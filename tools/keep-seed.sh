#!/bin/bash
# keep-seed.sh <seed-name> <dest-name> <property> "<needs>" "<ran>" "<caught-by>"
seed=$1; dest=$2; prop=$3; needs=$4; ran=$5; caught=$6
D=/verif/seeded/$dest; mkdir -p $D
cp /tmp/seed/$seed/out/patch.diff $D/patch.diff
cp /tmp/seed/$seed/out/demo_test.go $D/demo_test.go
[ -f /tmp/seed/$seed/out/notes.md ] && cp /tmp/seed/$seed/out/notes.md $D/notes.md
python3 - "$D" "$prop" "$needs" "$ran" "$caught" <<'PY'
import json,sys
d,prop,needs,ran,caught=sys.argv[1:6]
json.dump({"property":prop,"breaks":prop,"needs_to_manifest":needs,"what_i_ran":ran,"caught_by":caught,
           "source":"fresh sub-agent given only the property text and a scratch worktree"},open(d+"/meta.json","w"),indent=1)
PY
git -C /repo worktree remove --force /tmp/seed/$seed/wt 2>/dev/null; rm -rf /tmp/seed/$seed
echo kept $D
