#!/bin/bash
# harvest-corpus.sh <outdir> [seed-dir-name ...]
# For every kept seed (or the ones named): apply its patch to a scratch worktree of /repo, run the property's quick
# check against it from a scratch copy of /verif, and copy the replay it produces (an .ops file: a concrete failing
# input) to <outdir>/<prop>/seed-<name>.ops. The harvested inputs are *past failures*: committed under corpus/, they
# are replayed first on every run, so that the detection of these changes no longer depends on the generator's seed.
set -u
V="$(cd "$(dirname "$0")/.." && pwd)"
OUT="$1"; shift
S=/tmp/harvest.$$
mkdir -p $S "$OUT"
rsync -a --exclude .git --exclude replays $V/ $S/verif/
seeds=("$@"); [ ${#seeds[@]} -eq 0 ] && seeds=($(ls $V/seeded))
for sd in "${seeds[@]}"; do
  d=$V/seeded/$sd
  [ -f $d/patch.diff ] || continue
  prop=$(python3 -c "import json; m=json.load(open('$d/meta.json')); print(m.get('breaks') or m['property'])")
  git -C /repo worktree add --detach $S/wt HEAD >/dev/null 2>&1 || continue
  if git -C $S/wt apply $d/patch.diff 2>/dev/null; then
    rm -rf $S/verif/replays; mkdir -p $S/verif/replays
    line=$(cd $S/verif && VERIF_REPO=$S/wt timeout 2400 bin/check $prop quick 2>&1 | grep -E "^VIOLATION" | head -1)
    rp=$(echo "$line" | sed -n 's/.*replay=\([^ ]*\).*/\1/p')
    case "$rp" in
      *.ops) mkdir -p "$OUT/$prop"
             suite=$(grep -m1 '^# suite ' "$rp" | awk '{print $3}')
             case "$suite" in
               hubsubs|shutdown|serverconc) echo "$sd: suite $suite re-generates its cases on replay: not harvested";;
               *) f="$OUT/$prop/$suite-seed-$sd.ops"
                  { echo "# failing input harvested from the seeded change $sd (passes on the unchanged tree)"; grep -v '^#' "$rp" | sed '/^end/q'; } > "$f"
                  echo "$sd: harvested $(wc -l < "$f") lines ($suite)";;
             esac;;
      *) echo "$sd: no .ops replay ($line)";;
    esac
  else
    echo "$sd: patch no longer applies"
  fi
  git -C /repo worktree remove --force $S/wt
done
git -C /repo worktree prune
rm -rf $S
